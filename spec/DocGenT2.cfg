CONSTANTS
  MaxBlocks = 3
  MaxDepth = 1
  Level = 0
  EnabledKinds = {"para", "atx", "setext", "hr", "fence", "code", "def", "quote", "list", "table", "html"}
INIT Init
NEXT Next
INVARIANT TypeOK
INVARIANT LinesOrdered
INVARIANT FirstWins
INVARIANT Export
CHECK_DEADLOCK FALSE
