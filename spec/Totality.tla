------------------------------ MODULE Totality ------------------------------
(***************************************************************************)
(* C01: parse-and-render is total.                                         *)
(*                                                                         *)
(* A call Call(input, form, renderer, options) ends in exactly one of      *)
(*   Return            a string is returned                                *)
(*   RefuseVerb        LaTeX: RuntimeError, enabled only if some code span *)
(*                     contains every \verb delimiter candidate            *)
(*   RefusePygments    Pygments: ClassNotFound, enabled only with          *)
(*                     fail_on_unsupported_language and a fenced block     *)
(*                     whose language Pygments does not know               *)
(*   RefuseRecursion   RecursionError, enabled only if the input can nest  *)
(*                     more than 100 levels deep                           *)
(* There is no other action: any other exception, a refusal whose enabling *)
(* condition is false, a non-string result or a call that exceeds its      *)
(* wall-clock budget cannot be explained by the specification.             *)
(*                                                                         *)
(* Observation record (one per real call, identical projections merged):   *)
(*   renderer, outcome ("return"|"raise"|"timeout"), resultType, exc,      *)
(*   verbBlocked, pygFail, pygUnknown, deep  ("yes"/"no" facts decided by   *)
(*   the harness from the input and the options, not from the outcome)     *)
(***************************************************************************)
EXTENDS Naturals, Sequences, TLC

Return(o)          == o.outcome = "return" /\ o.resultType = "str"
RefuseVerb(o)      == o.outcome = "raise" /\ o.exc = "RuntimeError" /\ o.renderer = "LaTeXRenderer" /\ o.verbBlocked = "yes"
RefusePygments(o)  == o.outcome = "raise" /\ o.exc = "ClassNotFound" /\ o.renderer = "PygmentsRenderer"
                      /\ o.pygFail = "yes" /\ o.pygUnknown = "yes"
RefuseRecursion(o) == o.outcome = "raise" /\ o.exc = "RecursionError" /\ o.deep = "yes"

Explained(o) == Return(o) \/ RefuseVerb(o) \/ RefusePygments(o) \/ RefuseRecursion(o)

(* static configuration (mechanism, reported as drift unless a witness document really fails): every token class that the
   active token lists of a renderer can produce has a render function.  `active` and `keys` are read by introspection. *)
Produces(t) ==
    CASE t = "CoreTokens" -> {"Strong", "Emphasis", "Link", "Image"}
      [] t = "Paragraph"  -> {"Paragraph", "SetextHeading"}
      [] t = "List"       -> {"List", "ListItem"}
      [] t = "Table"      -> {"Table", "TableRow", "TableCell"}
      [] t = "LinkReferenceDefinitionBlock" -> {"LinkReferenceDefinitionBlock", "LinkReferenceDefinition"}
      [] t \in {"Footnote", "Whitespace"} -> {}
      [] OTHER -> {t}
Producible(active) == {"Document"} \cup UNION {Produces(active[i]) : i \in DOMAIN active}
Uncovered(r) == Producible(r.active) \ {r.keys[i] : i \in DOMAIN r.keys}

Judge(o) ==
    IF "law" \in DOMAIN o /\ o.law = "render-map"
    THEN (IF Uncovered(o) = {} THEN "ok" ELSE "RenderMap.no-render-function-for-" \o (CHOOSE t \in Uncovered(o) : TRUE))
    ELSE IF Explained(o) THEN "ok"
    ELSE IF o.outcome = "timeout" THEN "Totality.timeout"
    ELSE IF o.outcome = "return" THEN "Totality.non-string-result"
    ELSE "Totality." \o o.exc

=============================================================================
