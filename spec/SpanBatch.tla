------------------------------ MODULE SpanBatch ------------------------------
(* The fold of SpanResolve.tla run on candidate sets submitted by the      *)
(* harness (random triples and quadruples).  One initial state per record. *)
EXTENDS SpanResolve
Recs == ndJsonDeserialize(IOEnv.TRACE_FILE)
VARIABLE tid
BInit == /\ tid \in 1..Len(Recs)
         /\ cands = [i \in 1..Len(Recs[tid].cands) |->
                        [id |-> i, s |-> Recs[tid].cands[i].s, e |-> Recs[tid].cands[i].e, ps |-> Recs[tid].cands[i].ps,
                         pe |-> Recs[tid].cands[i].pe, prec |-> Recs[tid].cands[i].prec, inner |-> Recs[tid].cands[i].inner = "yes"]]
         /\ idx = 2 /\ prev = Node(cands[1]) /\ buffer = << >> /\ phase = "fold"
BNext == Consume /\ UNCHANGED tid
BExport == phase = "done" => PrintT(ToJson([tid |-> tid, model |-> {<<p[1], p[2]>> : p \in Result}]))
=============================================================================
