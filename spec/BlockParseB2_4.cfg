CONSTANTS
  Alphabet = {"1. a", " 2. a", "   - a", "    a", "     a", "", "10. a", "    b", "3) a", "   3. a"}
  MaxLines = 4
SPECIFICATION Spec
INVARIANT TypeOK
INVARIANT StateIsParse
INVARIANT Ordered2
INVARIANT Nested
INVARIANT QuoteLaw
INVARIANT ListLaw
INVARIANT ConcatLaw
INVARIANT Export
CHECK_DEADLOCK FALSE
