CONSTANTS
  Alphabet = {"a"}
  MaxLen = 0
  RawAlphabet <- I7
  RawMaxLen = 6
SPECIFICATION ISpec
INVARIANT TypeOK
INVARIANT Tiles
INVARIANT MatchesOutside
INVARIANT IExport
CHECK_DEADLOCK FALSE
