------------------------------ MODULE LatexOut ------------------------------
(***************************************************************************)
(* C17: the LaTeX renderer's output as a structural skeleton.              *)
(*                                                                         *)
(* The harness lexes the output with TeX's lexical rules (control word =   *)
(* backslash + letters, control symbol = backslash + one other character)  *)
(* and keeps structure only, as a sequence of strings:                     *)
(*   "{" "}" "$" "&" "#" "_" "^" "%"   an unescaped special character      *)
(*   "begin:e" "end:e"                 \begin{e} / \end{e}                 *)
(*   "cw:name"                         a control word that is not one of   *)
(*                                     the escape images (EscapeWords)     *)
(*   "cs:c"                            a control symbol other than the     *)
(*                                     escapes \$ \# \{ \} \& \_ \% \^ \~  *)
(*   "verb" "lst" "lstopt:ok|bad" "math"   opaque verbatim / math regions  *)
(*   "url{" "url}"                     the URL argument of \url / \href,   *)
(*                                     inside which only { } % # and the   *)
(*                                     backslash count                     *)
(* Empty groups "{}" directly after a control sequence are dropped, so the *)
(* skeleton does not depend on which escape image the renderer chooses.    *)
(*                                                                         *)
(* Two judgements:                                                         *)
(*   Acceptor         brace depth never negative and zero at the end,      *)
(*                    \end{e} closes the innermost \begin{e}, environment  *)
(*                    names from the renderer's vocabulary, no stray       *)
(*                    special character outside tables / math              *)
(*   NonInterference  the skeleton equals the skeleton of the same tree    *)
(*                    rendered with every text-bearing attribute replaced  *)
(*                    by a benign placeholder: text can neither open nor   *)
(*                    close a group, an environment, math mode or a        *)
(*                    comment, nor introduce a control sequence            *)
(***************************************************************************)
EXTENDS Naturals, Sequences, TLC, Json, IOUtils

Envs == {"document", "displayquote", "itemize", "enumerate", "lstlisting", "tabular"}

IsBegin(s) == Len(s) > 6 /\ SubSeq(s, 1, 6) = "begin:"
IsEnd(s)   == Len(s) > 4 /\ SubSeq(s, 1, 4) = "end:"
EnvOf(s)   == IF IsBegin(s) THEN SubSeq(s, 7, Len(s)) ELSE SubSeq(s, 5, Len(s))

RECURSIVE Accept(_, _, _, _)
(* depth: open brace groups; envs: stack of open environments; each environment remembers the brace depth it was opened at *)
Accept(sk, i, depth, envs) ==
    IF i > Len(sk) THEN (IF depth # 0 THEN "Latex.unbalanced-braces" ELSE IF envs # << >> THEN "Latex.unclosed-environment" ELSE "ok")
    ELSE LET s == sk[i] IN
         IF s = "{" \/ s = "url{" THEN Accept(sk, i + 1, depth + 1, envs)
         ELSE IF s = "}" \/ s = "url}" THEN (IF depth = 0 THEN "Latex.unbalanced-braces" ELSE Accept(sk, i + 1, depth - 1, envs))
         ELSE IF IsBegin(s) THEN (IF EnvOf(s) \notin Envs THEN "Latex.unknown-environment"
                                  ELSE Accept(sk, i + 1, depth, Append(envs, [e |-> EnvOf(s), d |-> depth])))
         ELSE IF IsEnd(s) THEN (IF envs = << >> \/ envs[Len(envs)].e # EnvOf(s) \/ envs[Len(envs)].d # depth THEN "Latex.misnested-environment"
                                ELSE Accept(sk, i + 1, depth, SubSeq(envs, 1, Len(envs) - 1)))
         ELSE IF s = "&" THEN (IF \E k \in DOMAIN envs : envs[k].e = "tabular" THEN Accept(sk, i + 1, depth, envs) ELSE "Latex.stray-&")
         ELSE IF s \in {"#", "_", "^", "%", "$"} THEN "Latex.stray-" \o s
         ELSE IF s = "lstopt:bad" THEN "Latex.listing-options"
         ELSE Accept(sk, i + 1, depth, envs)

Judge(r) ==
    LET a == Accept(r.skel, 1, 0, << >>) IN
    IF a # "ok" THEN a
    ELSE IF r.compare = "yes" /\ r.skel # r.skel0 THEN "Latex.text-changes-structure"
    ELSE "ok"

Recs == ndJsonDeserialize(IOEnv.TRACE_FILE)
VARIABLES tid, verdict
Init == tid \in 1..Len(Recs) /\ verdict = Judge(Recs[tid])
Next == UNCHANGED <<tid, verdict>>
Report == verdict = "ok" \/ PrintT(ToJson([tid |-> tid, verdict |-> verdict]))
=============================================================================
