CONSTANTS
  Alphabet = {"[a]: /u", "[a]:", "/u", "(t)", "[a]: /u (t)", "[a]: /u x", "[a]", "a", "", "[b]: /v", "===", "[A]: /w", "(t", "t)", "[a]: /u (t", "t) x"}
  MaxLines = 3
SPECIFICATION Spec
INVARIANT TypeOK
INVARIANT StateIsParse
INVARIANT Ordered2
INVARIANT Nested
INVARIANT QuoteLaw
INVARIANT ListLaw
INVARIANT ConcatLaw
INVARIANT Export
CHECK_DEADLOCK FALSE
