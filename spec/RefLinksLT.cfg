CONSTANTS
  RAlphabet = {"a", "A", "[", "]", " "}
  RMaxLen = 8
SPECIFICATION RSpec
INVARIANT RTypeOK
INVARIANT InOrder
INVARIANT InactiveHasLink
INVARIANT RExport
CHECK_DEADLOCK FALSE
