CONSTANTS
  MaxBlocks = 14
  MaxDepth = 4
  Level = 2
  EnabledKinds = {"para", "atx", "setext", "hr", "fence", "code", "def", "quote", "list", "table", "html"}
INIT Init
NEXT Next
INVARIANT TypeOK
INVARIANT LinesOrdered
INVARIANT FirstWins
INVARIANT Export
CHECK_DEADLOCK FALSE
