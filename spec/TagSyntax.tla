------------------------------ MODULE TagSyntax ------------------------------
(***************************************************************************)
(* The attribute grammar of an HTML open tag (CommonMark 0.30, section 6.6)*)
(* read deeper than the raw alphabets of InlineScan can: the text is "<a " *)
(* followed by every tail up to a length bound over an alphabet of name    *)
(* characters, space, "=", the two quotes, "/" and ">".  Whether the text  *)
(* begins with a tag is decided by InlineScan!Scan; a text that does not   *)
(* is ordinary (escaped) text.                                             *)
(***************************************************************************)
EXTENDS InlineScan

CONSTANTS TagTailAlphabet, TagTailMaxLen

TagPrefix == <<"<", "a", " ">>
T1 == {"a", " ", "=", "\"", "'", ">"}
T2 == {"a", "=", "/", ">", " ", "`"}
TFull == TagPrefix \o raw
TTails == UNION {[1..n -> TagTailAlphabet] : n \in 1..TagTailMaxLen}
TInit == /\ raw \in {t \in TTails : t[Len(t)] # " " /\ (IOEnv.SHARD = "-" \/ t[1] = IOEnv.SHARD)}
         /\ input = << >> /\ stack = << >> /\ cur = 1 /\ matches = {} /\ phase = "done"
TNext == UNCHANGED ivars
TSpec == TInit /\ [][TNext]_ivars
TText == RenderToks(TFull, Scan(TFull), [i \in 1..Len(TFull) |-> i])
(* a tag at the beginning covers a prefix of the text *)
TagInRange == LET sc == Scan(TFull) IN sc[1].k = "html" => sc[1].e >= 4 /\ sc[1].e <= Len(TFull)
TExport == PrintT(ToJson([input |-> Flat(TFull), html |-> TText, tag |-> IF Scan(TFull)[1].k = "html" THEN "yes" ELSE "no", tags |-> {}]))
=============================================================================
