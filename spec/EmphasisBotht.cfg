CONSTANTS
  Alphabet = {"a", "*", "_"}
  MaxLen = 12
INIT Init
NEXT Next
INVARIANT TypeOK
INVARIANT Laminar
INVARIANT NonEmpty
INVARIANT Export
CHECK_DEADLOCK FALSE
