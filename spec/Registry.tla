------------------------------ MODULE Registry ------------------------------
(***************************************************************************)
(* C11 (also the scoping clause of C16 and the mechanism behind C18):      *)
(* the process-wide parser configuration and what library use does to it.  *)
(*                                                                         *)
(* State                                                                   *)
(*   blk, spn   the active block / span token lists (sequences of names)   *)
(*   ctx        stack of entered renderer kinds (innermost last)           *)
(*   residue    parser scratch state that outlives a call:                 *)
(*              codeMatches  pending code-span matches of the core scanner *)
(*              parseSetext  setext recognition switch of the paragraph    *)
(*                           reader (off while a quote body is tokenized)  *)
(*              charref      "std" | "md": the patched stdlib pattern      *)
(*              root         "none" | "set": the current-document pointer  *)
(*   hist       history variable: the operations performed so far          *)
(*                                                                         *)
(* Actions are shaped like the code: Enter(R) performs the constructor's   *)
(* list surgery in order (add_token inserts at block position 0 / span     *)
(* position 1, so extras end up in reverse order; MarkdownRenderer first   *)
(* removes Footnote and raises if it is absent; Scheme replaces both       *)
(* lists), Exit resets both lists to the defaults whatever the nesting,    *)
(* Render(R) is the self-contained mistletoe.markdown(d, R), BareParse is  *)
(* Document(d) with whatever lists are active, FailParse(site) is a parse  *)
(* that raises inside a custom token at one of the seven kinds of site.    *)
(*                                                                         *)
(* The specification describes the behaviour the property demands:         *)
(* residue is clean whenever no call is in progress, also after a failing  *)
(* parse.  The output of a render is an uninterpreted function of          *)
(* (document, renderer, options, blk, spn) when the residue is clean; the  *)
(* harness compares it with the output of a fresh interpreter.             *)
(***************************************************************************)
EXTENDS Naturals, Sequences, FiniteSets, TLC, Json

CONSTANTS MaxCtx, MaxHist

VARIABLES blk, spn, ctx, residue, hist
vars == <<blk, spn, ctx, residue, hist>>

DefaultBlk == <<"BlockCode", "Heading", "Quote", "CodeFence", "ThematicBreak", "List", "Table", "Footnote", "Paragraph">>
DefaultSpn == <<"EscapeSequence", "Strikethrough", "AutoLink", "CoreTokens", "InlineCode", "LineBreak", "RawText">>
Clean      == [codeMatches |-> 0, parseSetext |-> TRUE, charref |-> "std", root |-> "none"]

(* renderer kinds, quotiented by constructor effect:                        *)
(*   Html = HtmlRenderer, TocRenderer, PygmentsRenderer, JiraRenderer       *)
(*   Plain = AstRenderer, HtmlRenderer(process_html_tokens=False)           *)
Kinds == {"Html", "Plain", "GithubWiki", "MathJax", "LaTeX", "Markdown", "XWiki", "Scheme"}
DocKinds == Kinds \ {"Scheme"}      \* kinds that render a Document

InsertAt(s, pos, x) == SubSeq(s, 1, pos) \o <<x>> \o SubSeq(s, pos + 1, Len(s))     \* list.insert(pos, x), pos <= Len(s)
AddBlk(b, t) == InsertAt(b, 0, t)
AddSpn(s, t) == InsertAt(s, IF Len(s) >= 1 THEN 1 ELSE 0, t)
Without(s, t) == LET i == CHOOSE k \in DOMAIN s : s[k] = t /\ \A j \in 1..(k-1) : s[j] # t
                 IN SubSeq(s, 1, i - 1) \o SubSeq(s, i + 1, Len(s))
Has(s, t) == \E k \in DOMAIN s : s[k] = t

(* extras in the order the constructor registers them: <<"b"|"s", name>> *)
Extras(k) ==
    CASE k = "Html"       -> << <<"b", "HtmlBlock">>, <<"s", "HtmlSpan">> >>
      [] k = "Plain"      -> << >>
      [] k = "GithubWiki" -> << <<"b", "HtmlBlock">>, <<"s", "HtmlSpan">>, <<"s", "GithubWiki">> >>
      [] k = "MathJax"    -> << <<"s", "Math">>, <<"b", "HtmlBlock">>, <<"s", "HtmlSpan">> >>
      [] k = "LaTeX"      -> << <<"s", "Math">> >>
      [] k = "Markdown"   -> << <<"b", "HtmlBlock">>, <<"s", "HtmlSpan">>, <<"b", "BlankLine">>, <<"b", "LinkReferenceDefinitionBlock">> >>
      [] k = "XWiki"      -> << <<"b", "HtmlBlock">>, <<"s", "HtmlSpan">>, <<"s", "XWikiBlockMacroStart">>, <<"s", "XWikiBlockMacroEnd">> >>
      [] k = "Scheme"     -> << >>

RECURSIVE Register(_, _, _)
Register(b, s, ex) ==
    IF ex = << >> THEN <<b, s>>
    ELSE IF Head(ex)[1] = "b" THEN Register(AddBlk(b, Head(ex)[2]), s, Tail(ex))
    ELSE Register(b, AddSpn(s, Head(ex)[2]), Tail(ex))

(* constructor effect; "raises" when MarkdownRenderer cannot remove Footnote *)
EnterRaises(k, b) == k = "Markdown" /\ ~Has(b, "Footnote")
Entered(k, b, s) ==
    IF k = "Scheme" THEN << << >>, <<"Expr", "Number", "Variable", "Whitespace">> >>
    ELSE IF k = "Markdown" THEN Register(Without(b, "Footnote"), s, Extras(k))
    ELSE Register(b, s, Extras(k))

Op(name, arg) == [op |-> name, arg |-> arg]
Log(o) == hist' = Append(hist, o)

Init == blk = DefaultBlk /\ spn = DefaultSpn /\ ctx = << >> /\ residue = Clean /\ hist = << >>

Enter(k) ==
    /\ Len(ctx) < MaxCtx
    /\ IF EnterRaises(k, blk)
       THEN UNCHANGED <<blk, spn, ctx>>
       ELSE /\ blk' = Entered(k, blk, spn)[1]
            /\ spn' = Entered(k, blk, spn)[2]
            /\ ctx' = Append(ctx, k)
    /\ UNCHANGED residue
    /\ Log(Op("enter", k))

Exit ==
    /\ Len(ctx) > 0
    /\ ctx' = SubSeq(ctx, 1, Len(ctx) - 1)
    /\ blk' = DefaultBlk /\ spn' = DefaultSpn
    /\ UNCHANGED residue
    /\ Log(Op("exit", ""))

(* mistletoe.markdown(d, R): constructor, parse, render, __exit__; the parse itself leaves no residue *)
Render(k) ==
    /\ k \in DocKinds
    /\ IF EnterRaises(k, blk) THEN UNCHANGED <<blk, spn>>
                              ELSE blk' = DefaultBlk /\ spn' = DefaultSpn
    /\ UNCHANGED <<ctx, residue>>
    /\ Log(Op("render", k))

BareParse ==
    /\ UNCHANGED <<blk, spn, ctx, residue>>
    /\ Log(Op("parse", ""))

Sites == {"block-start", "block-start-in-quote", "span-find-before-core", "span-find-between",
          "span-find-after-code", "span-constructor", "render-method"}

(* a parse that raises inside a custom token, wrapped in its own renderer context (which exits) *)
FailParse(site) ==
    /\ blk' = DefaultBlk /\ spn' = DefaultSpn
    /\ residue' = Clean          \* what the property demands; the replay shows whether the code complies
    /\ UNCHANGED ctx
    /\ Log(Op("fail", site))

Next ==
    /\ Len(hist) < MaxHist
    /\ \/ \E k \in Kinds : Enter(k)
       \/ Exit
       \/ \E k \in DocKinds : Render(k)
       \/ BareParse
       \/ \E s \in Sites : FailParse(s)

---------------------------------------------------------------------------
TypeOK ==
    /\ \A i \in DOMAIN ctx : ctx[i] \in Kinds
    /\ Len(ctx) <= MaxCtx

(* after any Exit the lists are exactly the defaults *)
AfterExitDefaults ==
    (Len(hist) > 0 /\ hist[Len(hist)].op = "exit") => (blk = DefaultBlk /\ spn = DefaultSpn)

(* whenever no call is in progress (every state of this machine) the residue is clean *)
CleanAtRest == residue = Clean

(* at a quiescent point the configuration is the initial one: a self-contained call there sees *)
(* exactly what it sees in a fresh interpreter, so its result depends on its arguments only     *)
Quiescent == ctx = << >>
HistoryFree == Quiescent => (blk = DefaultBlk /\ spn = DefaultSpn /\ residue = Clean)

(* no token is registered twice at a quiescent point or directly after an enter from quiescence *)
NoDuplicatesShallow == Len(ctx) <= 1 =>
    /\ Cardinality({blk[i] : i \in DOMAIN blk}) = Len(blk)
    /\ Cardinality({spn[i] : i \in DOMAIN spn}) = Len(spn)

(* export of every transition: the history up to and including the new operation and the state it leads to *)
ExportNext ==
    PrintT(ToJson([hist |-> hist', blk |-> blk', spn |-> spn', depth |-> Len(ctx'),
                   quiescent |-> IF ctx' = << >> THEN "yes" ELSE "no"]))

NextExport == Next /\ ExportNext

StateView == <<blk, spn, ctx, residue>>
=============================================================================
