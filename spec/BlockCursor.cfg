CONSTANTS
  NLines = 6
  Misbehave = FALSE
INIT Init
NEXT Next
INVARIANT Progress
INVARIANT Terminates
CHECK_DEADLOCK FALSE
