-------------------------- MODULE BlockCursorTrace --------------------------
EXTENDS BlockCursor
Recs == ndJsonDeserialize(IOEnv.TRACE_FILE)
VARIABLES tid, verdict
TInit == tid \in 1..Len(Recs) /\ verdict = Judge(Recs[tid]) /\ pos = 0 /\ iter = 0 /\ lastPos = 0
TNext == UNCHANGED <<tid, verdict, pos, iter, lastPos>>
Report == verdict = "ok" \/ PrintT(ToJson([tid |-> tid, verdict |-> verdict]))
=============================================================================
