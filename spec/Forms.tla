------------------------------- MODULE Forms -------------------------------
(***************************************************************************)
(* C15: the ways a text reaches the block tokenizer.                       *)
(*                                                                         *)
(* A text is a sequence of line bodies (strings without "\n") and a flag   *)
(* saying whether the last line is terminated.  Each supply path is a      *)
(* function from the text to the list of lines handed to the tokenizer,    *)
(* modelled on Document.__init__ (split with line ends kept, then complete *)
(* a missing final line end):                                              *)
(*   str        -> SplitKeep(Join(text))                                   *)
(*   list/keep  -> the lines with their terminators                        *)
(*   list/bare  -> the bodies, no terminators                              *)
(*   file       -> iteration over a text file: like list/keep              *)
(* The design-level claim checked by TLC: all paths give the same line     *)
(* list, namely every body followed by "\n", with or without the final     *)
(* terminator.  Every generated text is exported and replayed through the  *)
(* real API in all forms (spec -> code).                                   *)
(***************************************************************************)
EXTENDS Naturals, Sequences, TLC, Json

Bodies == {"", "  ", "a", "b  ", "# h", "- x", "    c", ">q"}
MaxLines == 3

NL == "\n"

RECURSIVE Join(_, _)
Join(bs, final) ==
    IF Len(bs) = 0 THEN ""
    ELSE IF Len(bs) = 1 THEN bs[1] \o (IF final THEN NL ELSE "")
    ELSE bs[1] \o NL \o Join(Tail(bs), final)

(* str.splitlines(keepends=True) restricted to "\n" *)
RECURSIVE SplitKeepFrom(_, _, _)
SplitKeepFrom(s, start, i) ==
    IF i > Len(s) THEN (IF start <= Len(s) THEN <<SubSeq(s, start, Len(s))>> ELSE <<>>)
    ELSE IF SubSeq(s, i, i) = NL THEN <<SubSeq(s, start, i)>> \o SplitKeepFrom(s, i + 1, i + 1)
    ELSE SplitKeepFrom(s, start, i + 1)
SplitKeep(s) == SplitKeepFrom(s, 1, 1)

EndsNL(l) == Len(l) > 0 /\ SubSeq(l, Len(l), Len(l)) = NL
Complete(ls) == [i \in DOMAIN ls |-> IF EndsNL(ls[i]) THEN ls[i] ELSE ls[i] \o NL]

KeepLines(bs, final) == [i \in DOMAIN bs |-> IF i < Len(bs) \/ final THEN bs[i] \o NL ELSE bs[i]]

ViaStr(bs, final)      == Complete(SplitKeep(Join(bs, final)))
ViaListKeep(bs, final) == Complete(KeepLines(bs, final))
ViaListBare(bs, final) == Complete(bs)
ViaFile(bs, final)     == Complete(KeepLines(bs, final))
Canonical(bs)          == [i \in DOMAIN bs |-> bs[i] \o NL]

VARIABLES bodies, final, phase
vars == <<bodies, final, phase>>

Init == bodies = <<>> /\ final \in BOOLEAN /\ phase = "typing"
TypeLine(b) == phase = "typing" /\ Len(bodies) < MaxLines /\ bodies' = Append(bodies, b) /\ UNCHANGED <<final, phase>>
Supply == phase = "typing" /\ Len(bodies) > 0 /\ phase' = "supplied" /\ UNCHANGED <<bodies, final>>
Next == (\E b \in Bodies : TypeLine(b)) \/ Supply

(* an unterminated empty last body is not a line at all: "a\n" + "" is the text "a\n" *)
Proper == ~(~final /\ bodies[Len(bodies)] = "")

FormsCoincide ==
    (phase = "supplied" /\ Proper) =>
        /\ ViaStr(bodies, final) = Canonical(bodies)
        /\ ViaListKeep(bodies, final) = Canonical(bodies)
        /\ ViaListBare(bodies, final) = Canonical(bodies)
        /\ ViaFile(bodies, final) = Canonical(bodies)

Export == (phase = "supplied" /\ Proper) =>
    PrintT(ToJson([bodies |-> bodies, final |-> final, text |-> Join(bodies, final), lines |-> Canonical(bodies)]))
=============================================================================
