----------------------------- MODULE InlineScan -----------------------------
(***************************************************************************)
(* Inline structure beyond emphasis (CommonMark 0.30, sections 6.1, 6.3    *)
(* "code spans", 6.5 "autolinks", 6.6 "raw HTML" and their precedence over *)
(* emphasis, section 6.2): the text is scanned from left to right -        *)
(*   a backslash before an ASCII punctuation character escapes it;         *)
(*   a run of n backticks opens a code span that ends at the next run of   *)
(*     exactly n backticks (none: the run is literal text);                *)
(*   "<" opens an autolink (scheme of 2-32 characters, colon, no space or  *)
(*     angle bracket up to ">") or an HTML open / closing tag;             *)
(*   "&" opens an entity or numeric character reference (section 2.5):     *)
(*     "&name;" with a name of the HTML5 table, "&#" 1-7 digits ";",       *)
(*     "&#x" 1-6 hexadecimal digits ";" - anything else is literal text;   *)
(* what these constructs cover is protected: a "*" or "_" inside is no     *)
(* delimiter, but it still is a punctuation character for the flanking     *)
(* rules of its neighbours.  The delimiter algorithm of Emphasis.tla then  *)
(* runs on the class string of the text.                                   *)
(* The module EXTENDS Emphasis: Step, Runs, Out are reused unchanged.      *)
(***************************************************************************)
EXTENDS Emphasis

CONSTANTS RawAlphabet, RawMaxLen

VARIABLE raw
ivars == <<vars, raw>>

AsciiPunct == {"!", "\"", "#", "$", "%", "&", "'", "(", ")", "*", "+", ",", "-", ".", "/", ":", ";", "<", "=", ">", "?", "@", "[", "\\", "]", "^", "_", "`", "{", "|", "}", "~"}
Letters == {"a", "b", "c"}                       \* the letters of the raw alphabets

At(r, i) == IF i >= 1 /\ i <= Len(r) THEN r[i] ELSE ""
RECURSIVE RunIn(_, _, _)
RunIn(r, i, S) == IF At(r, i) \in S THEN 1 + RunIn(r, i + 1, S) ELSE 0
RECURSIVE RunLen(_, _, _)
RunLen(r, i, c) == IF At(r, i) = c THEN 1 + RunLen(r, i + 1, c) ELSE 0

(* the first maximal run of exactly n backticks that starts behind position i (0: none) *)
ClosingRun(r, i, n) ==
    LET S == {q \in (i + 1)..Len(r) : r[q] = "`" /\ r[q - 1] # "`" /\ RunLen(r, q, "`") = n} IN
    IF S = {} THEN 0 ELSE CHOOSE q \in S : \A q2 \in S : q <= q2

(* autolink: "<", scheme (a letter, then 1-31 letters), ":", anything but space and angle brackets, ">" *)
RECURSIVE LetterRun(_, _)
LetterRun(r, i) == IF At(r, i) \in Letters THEN 1 + LetterRun(r, i + 1) ELSE 0
AutolinkEnd(r, i) ==
    LET G == {q \in (i + 1)..Len(r) : r[q] = ">"}
        g == IF G = {} THEN 0 ELSE CHOOSE q \in G : \A q2 \in G : q <= q2
        sch == LetterRun(r, i + 1) IN
    IF g > 0 /\ sch >= 2 /\ sch <= 32 /\ At(r, i + 1 + sch) = ":" /\ \A q \in (i + 1)..(g - 1) : r[q] \notin {" ", "<"} THEN g ELSE 0

(* raw HTML: an open tag <name attr* /?> or a closing tag </name> *)
RECURSIVE SpaceRun(_, _)
SpaceRun(r, i) == IF At(r, i) \in {" ", "\n"} THEN 1 + SpaceRun(r, i + 1) ELSE 0          \* (whitespace inside a tag may hold a line end)
(* attribute name: a letter, "_" or ":", then letters, "_", ":", ".", "-" (digits do not occur in the raw alphabets) *)
RECURSIVE AttrRest(_, _)
AttrRest(r, i) == IF At(r, i) \in (Letters \cup {"_", ":", ".", "-"}) THEN 1 + AttrRest(r, i + 1) ELSE 0
AttrName(r, i) == IF At(r, i) \in (Letters \cup {"_", ":"}) THEN 1 + AttrRest(r, i + 1) ELSE 0
(* attribute value specification behind an attribute name that ends before j: optional spaces, "=", optional spaces, and a value -
   unquoted (a non-empty run without space, quotes, "=", "<", ">", backtick), or in single or double quotes (anything but the quote).
   First position behind the value, or j if there is no value specification. *)
NextOf(r, from, c) == LET S == {q \in from..Len(r) : r[q] = c} IN IF S = {} THEN 0 ELSE CHOOSE q \in S : \A q2 \in S : q <= q2
RECURSIVE UnquotedRun(_, _)
UnquotedRun(r, i) == IF At(r, i) # "" /\ At(r, i) \notin {" ", "\n", "\"", "'", "=", "<", ">", "`"} THEN 1 + UnquotedRun(r, i + 1) ELSE 0
AfterValue(r, j) ==
    LET k == j + SpaceRun(r, j)
        v == k + 1 + SpaceRun(r, k + 1) IN
    IF At(r, k) # "=" THEN j
    ELSE IF At(r, v) \in {"\"", "'"} THEN (LET q == NextOf(r, v + 1, r[v]) IN IF q > 0 THEN q + 1 ELSE j)
    ELSE IF UnquotedRun(r, v) > 0 THEN v + UnquotedRun(r, v) ELSE j
RECURSIVE AfterAttrs(_, _)
AfterAttrs(r, i) == LET sp == SpaceRun(r, i) nm == AttrName(r, i + sp) IN IF sp > 0 /\ nm > 0 THEN AfterAttrs(r, AfterValue(r, i + sp + nm)) ELSE i
(* tag name: a letter, then letters, digits or hyphens *)
TagName(r, i) == IF At(r, i) \in Letters THEN 1 + RunIn(r, i + 1, Letters \cup {"-", "2", "3", "4", "5"}) ELSE 0
HtmlTagEnd(r, i) ==
    IF At(r, i + 1) = "/" THEN
        LET nm == TagName(r, i + 2) k == i + 2 + nm + SpaceRun(r, i + 2 + nm) IN IF nm > 0 /\ At(r, k) = ">" THEN k ELSE 0
    ELSE LET nm == TagName(r, i + 1)
             a == AfterAttrs(r, i + 1 + nm)
             k == a + SpaceRun(r, a) IN
         IF nm = 0 THEN 0 ELSE IF At(r, k) = ">" THEN k ELSE IF At(r, k) = "/" /\ At(r, k + 1) = ">" THEN k + 1 ELSE 0

(* the other forms of raw HTML: comment "<!--" text "-->" (the text does not start with ">" or "->", does not end with "-" and
   holds no "--"; it may be empty), processing instruction "<?" ... "?>", declaration "<!" letter ... ">" *)
FirstAt(r, from, a, b) ==                      \* least q >= from with r[q] = a and r[q + 1] = b (b = "" : any), or 0
    LET S == {q \in from..Len(r) : r[q] = a /\ (b = "" \/ At(r, q + 1) = b)} IN IF S = {} THEN 0 ELSE CHOOSE q \in S : \A q2 \in S : q <= q2
HtmlOtherEnd(r, i) ==
    IF At(r, i + 1) = "!" /\ At(r, i + 2) = "-" /\ At(r, i + 3) = "-" THEN
        LET q == FirstAt(r, i + 4, "-", "-") IN
        IF q = 0 \/ At(r, q + 2) # ">" THEN 0
        ELSE IF q = i + 4 THEN q + 2                                                  \* "<!---->"
        ELSE IF At(r, i + 4) = ">" \/ (At(r, i + 4) = "-" /\ At(r, i + 5) = ">") THEN 0
        ELSE q + 2
    ELSE IF At(r, i + 1) = "?" THEN
        LET q == FirstAt(r, i + 2, "?", ">") IN IF q = 0 THEN 0 ELSE q + 1
    ELSE IF At(r, i + 1) = "!" /\ At(r, i + 2) \in Letters THEN FirstAt(r, i + 3, ">", "")
    ELSE 0

(* entity and numeric character references.  The table holds the HTML5 names that can be spelled with the letters of the raw
   alphabets (generated from the WHATWG table by tools/gen_entity_table.py, which the harness re-runs and compares); a character
   outside printable ASCII is written {U+XXXX} in the expected text, and the harness spells the observed text the same way *)
Named == "amp" :> "&" @@ "ap" :> "{U+2248}" @@ "lap" :> "{U+2A85}" @@ "lat" :> "{U+2AAB}" @@ "ll" :> "{U+226A}" @@ "lt" :> "<" @@ "malt" :> "{U+2720}" @@ "map" :> "{U+21A6}" @@ "mp" :> "{U+2213}" @@ "pm" :> "{U+00B1}" @@ "xmap" :> "{U+27FC}"
EntLetters == {"m", "p", "l", "t", "x"}            \* further letters of the entity alphabets
DigitVal == "0" :> 0 @@ "1" :> 1 @@ "2" :> 2 @@ "3" :> 3 @@ "4" :> 4 @@ "5" :> 5 @@ "6" :> 6 @@ "7" :> 7 @@ "8" :> 8 @@ "9" :> 9
HexVal == DigitVal @@ "a" :> 10 @@ "b" :> 11 @@ "c" :> 12 @@ "d" :> 13 @@ "e" :> 14 @@ "f" :> 15 @@ "A" :> 10 @@ "B" :> 11 @@ "C" :> 12 @@ "D" :> 13 @@ "E" :> 14 @@ "F" :> 15
NameCh == Letters \cup EntLetters \cup DOMAIN DigitVal
(* position of the closing ";" or 0 *)
EntityEnd(r, i) ==
    IF At(r, i + 1) = "#" THEN
        IF At(r, i + 2) \in {"x", "X"}
        THEN LET h == RunIn(r, i + 3, DOMAIN HexVal) IN IF h >= 1 /\ h <= 6 /\ At(r, i + 3 + h) = ";" THEN i + 3 + h ELSE 0
        ELSE LET d == RunIn(r, i + 2, DOMAIN DigitVal) IN IF d >= 1 /\ d <= 7 /\ At(r, i + 2 + d) = ";" THEN i + 2 + d ELSE 0
    ELSE LET n == RunIn(r, i + 1, NameCh) IN
         IF n >= 1 /\ At(r, i + 1 + n) = ";" /\ Flat(SubSeq(r, i + 1, i + n)) \in DOMAIN Named THEN i + 1 + n ELSE 0
RECURSIVE NumVal(_, _, _)
NumVal(sq, base, acc) == IF sq = << >> THEN acc ELSE NumVal(Tail(sq), base, acc * base + HexVal[Head(sq)])
Ascii == " !\"#$%&'()*+,-./0123456789:;<=>?@ABCDEFGHIJKLMNOPQRSTUVWXYZ[\\]^_`abcdefghijklmnopqrstuvwxyz{|}~"      \* code points 32..126
HexDigits == "0123456789ABCDEF"
RECURSIVE HexOf(_)
HexOf(n) == IF n < 16 THEN SubSeq(HexDigits, n + 1, n + 1) ELSE HexOf(n \div 16) \o SubSeq(HexDigits, (n % 16) + 1, (n % 16) + 1)
RECURSIVE Pad4(_)
Pad4(h) == IF Len(h) >= 4 THEN h ELSE Pad4("0" \o h)
(* the character a code point stands for: 0, surrogates and anything beyond U+10FFFF give the replacement character *)
CharOf(n) == IF n = 0 \/ n > 1114111 \/ (n >= 55296 /\ n <= 57343) THEN "{U+FFFD}"
             ELSE IF n >= 32 /\ n <= 126 THEN SubSeq(Ascii, n - 31, n - 31)
             ELSE "{U+" \o Pad4(HexOf(n)) \o "}"
EntityText(r, g) ==
    IF r[g.s + 1] = "#" THEN
        IF r[g.s + 2] \in {"x", "X"} THEN CharOf(NumVal(SubSeq(r, g.s + 3, g.e - 1), 16, 0)) ELSE CharOf(NumVal(SubSeq(r, g.s + 2, g.e - 1), 10, 0))
    ELSE Named[Flat(SubSeq(r, g.s + 1, g.e - 1))]

(* the scan: a sequence of segments [k, s, e] that tile the text; k in "t" (one character of text), "esc", "code", "auto", "html", "ent" *)
Seg(k, s, e) == [k |-> k, s |-> s, e |-> e]
RECURSIVE ScanFrom(_, _)
ScanFrom(r, i) ==
    IF i > Len(r) THEN << >>
    ELSE IF r[i] = "\\" /\ At(r, i + 1) \in AsciiPunct THEN <<Seg("esc", i, i + 1)>> \o ScanFrom(r, i + 2)
    ELSE IF r[i] = "`" THEN
        LET n == RunLen(r, i, "`") c == ClosingRun(r, i + n - 1, n) IN
        IF c > 0 THEN <<Seg("code", i, c + n - 1)>> \o ScanFrom(r, c + n)
        ELSE [q \in 1..n |-> Seg("t", i + q - 1, i + q - 1)] \o ScanFrom(r, i + n)
    ELSE IF r[i] = "<" /\ AutolinkEnd(r, i) > 0 THEN <<Seg("auto", i, AutolinkEnd(r, i))>> \o ScanFrom(r, AutolinkEnd(r, i) + 1)
    ELSE IF r[i] = "<" /\ HtmlTagEnd(r, i) > 0 THEN <<Seg("html", i, HtmlTagEnd(r, i))>> \o ScanFrom(r, HtmlTagEnd(r, i) + 1)
    ELSE IF r[i] = "<" /\ HtmlOtherEnd(r, i) > 0 THEN <<Seg("html", i, HtmlOtherEnd(r, i))>> \o ScanFrom(r, HtmlOtherEnd(r, i) + 1)
    ELSE IF r[i] = "&" /\ EntityEnd(r, i) > 0 THEN <<Seg("ent", i, EntityEnd(r, i))>> \o ScanFrom(r, EntityEnd(r, i) + 1)
    ELSE <<Seg("t", i, i)>> \o ScanFrom(r, i + 1)
Scan(r) == ScanFrom(r, 1)

SegAt(sc, p) == CHOOSE g \in {sc[k] : k \in DOMAIN sc} : g.s <= p /\ p <= g.e
Protected(sc, p) == SegAt(sc, p).k # "t"

(* class string for the delimiter algorithm: protected delimiters are plain punctuation *)
ClassOf(r, sc, p) ==
    LET c == r[p] IN
    IF c \in {"*", "_"} THEN (IF Protected(sc, p) THEN "." ELSE c)
    ELSE IF c \in {" ", "\n"} THEN " "
    ELSE IF c \in NameCh THEN "a"
    ELSE "."
Classes(r) == LET sc == Scan(r) IN [p \in 1..Len(r) |-> ClassOf(r, sc, p)]

---------------------------------------------------------------------------
(* raw alphabets (configuration files cannot spell a backslash) *)
I1 == {"a", " ", "*", "`", "\\"}
I2 == {"a", "*", "`", "<", ">", "/"}
I3 == {"a", ":", "<", ">", "*", "`"}
I4 == {"a", " ", "`", "<", ">", "\\", "_"}
I5 == {"a", ":", "<", ">", "\\"}                 \* backslashes before autolinks (the shortest, "\\<aa:>" behind an escaped backslash, has 7 characters)
I6 == {"<", "!", "-", ">", "a"}                  \* comments and declarations
I7 == {"<", "?", ">", "a", "!"}                  \* processing instructions
E1 == {"&", "#", "3", "5", ";", "a", "x"}        \* numeric references, decimal and hexadecimal
E2 == {"&", "a", "m", "p", ";", "l", "t"}        \* named references
E3 == {"&", "#", "4", "2", ";", "*"}             \* a "*" written as a reference is no delimiter
E4 == {"&", "l", "t", ";", "`", "\\", "a"}       \* references in code spans and behind backslashes
RawStrings == UNION {[1..n -> RawAlphabet] : n \in 1..RawMaxLen}
RawProper(r) == r[1] # " " /\ r[Len(r)] # " " /\ (\E q \in 1..Len(r) : r[q] # "#")       \* (the text is observed as the content of an ATX heading)
RawShard(r) == IF IOEnv.SHARD = "-" THEN TRUE ELSE r[1] = IOEnv.SHARD

IInit ==
    /\ raw \in {r \in RawStrings : RawProper(r) /\ RawShard(r)}
    /\ input = Classes(raw)
    /\ stack = Runs(input) /\ cur = 1 /\ matches = {} /\ phase = "run"
INext == Step /\ UNCHANGED raw
ISpec == IInit /\ [][INext]_ivars

---------------------------------------------------------------------------
(* rendering *)
RECURSIVE EscS(_)
EscS(s) == IF s = "" THEN "" ELSE LET c == SubSeq(s, 1, 1) IN
           (CASE c = "&" -> "&amp;" [] c = "<" -> "&lt;" [] c = ">" -> "&gt;" [] OTHER -> c) \o EscS(SubSeq(s, 2, Len(s)))      \* (text: quotes stay)
Sub(r, a, b) == Flat(SubSeq(r, a, b))
CodeContent(r, g) ==
    LET n == RunLen(r, g.s, "`")
        c == Flat([q \in 1..(g.e - g.s - 2 * n + 1) |-> IF r[g.s + n + q - 1] = "\n" THEN " " ELSE r[g.s + n + q - 1]])     \* (line endings are spaces)
        allsp == \A q \in 1..Len(c) : SubSeq(c, q, q) = " " IN
    IF Len(c) >= 2 /\ SubSeq(c, 1, 1) = " " /\ SubSeq(c, Len(c), Len(c)) = " " /\ ~allsp THEN SubSeq(c, 2, Len(c) - 1) ELSE c
(* a character of ordinary text: spaces before a line end are dropped, two or more of them make the line end a hard break *)
RECURSIVE SpacesToEol(_, _)
SpacesToEol(r, p) == IF At(r, p) = " " THEN SpacesToEol(r, p + 1) ELSE At(r, p) = "\n"
RECURSIVE TextSpacesBefore(_, _, _)
TextSpacesBefore(r, sc, p) == IF p >= 1 /\ r[p] = " " /\ SegAt(sc, p).k = "t" THEN 1 + TextSpacesBefore(r, sc, p - 1) ELSE 0
TextCh(r, sc, p) ==
    IF r[p] = " " /\ SpacesToEol(r, p) THEN ""
    ELSE IF r[p] = "\\" /\ At(r, p + 1) = "\n" THEN ""                  \* (a backslash that the scan left as text is not escaped itself)
    ELSE IF r[p] = "\n" THEN (IF TextSpacesBefore(r, sc, p - 1) >= 2 \/ (At(r, p - 1) = "\\" /\ SegAt(sc, p - 1).k = "t") THEN "<br />\n" ELSE "\n")
    ELSE EscS(r[p])
RenderPos(r, sc, p) ==
    LET g == SegAt(sc, p) IN
    CASE g.k = "t"    -> TextCh(r, sc, p)
      [] g.k = "esc"  -> IF p = g.s THEN "" ELSE EscS(r[p])
      [] g.k = "code" -> IF p = g.s THEN "<code>" \o EscS(CodeContent(r, g)) \o "</code>" ELSE ""
      [] g.k = "ent"  -> IF p = g.s THEN EscS(EntityText(r, g)) ELSE ""
      [] g.k = "auto" -> IF p = g.s THEN "<a href=\"" \o EscS(Sub(r, g.s + 1, g.e - 1)) \o "\">" \o EscS(Sub(r, g.s + 1, g.e - 1)) \o "</a>" ELSE ""
      [] OTHER        -> IF p = g.s THEN Sub(r, g.s, g.e) ELSE ""
Tag(t) == CASE t = -1 -> "<em>" [] t = -2 -> "</em>" [] t = -3 -> "<strong>" [] OTHER -> "</strong>"
RECURSIVE RenderToks(_, _, _)
RenderToks(r, sc, toks) == IF toks = << >> THEN ""
                           ELSE (IF Head(toks) < 0 THEN Tag(Head(toks)) ELSE RenderPos(r, sc, Head(toks))) \o RenderToks(r, sc, Tail(toks))
Html == RenderToks(raw, Scan(raw), Out(input, matches, 1))

(* an autolink whose address holds characters that a renderer may percent-encode is exported with the flag "enc": the
   spelling of such an address is not fixed by the specification *)
NeedsEnc == \E k \in DOMAIN Scan(raw) : Scan(raw)[k].k = "auto" /\ \E q \in (Scan(raw)[k].s + 1)..(Scan(raw)[k].e - 1) : raw[q] \notin (Letters \cup {":", "/"})

(* the segments tile the text *)
Tiles == LET sc == Scan(raw) IN
         /\ sc # << >> /\ sc[1].s = 1 /\ sc[Len(sc)].e = Len(raw)
         /\ \A k \in 1..(Len(sc) - 1) : sc[k + 1].s = sc[k].e + 1
         /\ \A k \in DOMAIN sc : sc[k].s <= sc[k].e
(* no emphasis boundary falls inside a protected segment *)
MatchesOutside == \A m \in matches : ~Protected(Scan(raw), m.os) /\ ~Protected(Scan(raw), m.cs)

(* classes: "unsettled-..." the specification text admits two readings (not judged) *)
ITags ==
    LET sc == Scan(raw) IN
    (IF \E k \in 1..(Len(sc) - 1) : sc[k].k = "esc" /\ raw[sc[k].e] = "`" /\ raw[sc[k + 1].s] = "`"
     THEN {"unsettled-escaped-backtick-before-backticks"} ELSE {})       \* is the run behind an escaped backtick "preceded by a backtick"?
    \cup (IF NeedsEnc THEN {"unsettled-autolink-address-spelling"} ELSE {})

IExport == phase = "done" => PrintT(ToJson([input |-> Flat(raw), html |-> Html, tags |-> ITags]))
=============================================================================
