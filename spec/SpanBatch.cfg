CONSTANTS
  P = 8
  Precs = {5}
  NCands = 2
  Enclosed = FALSE
INIT BInit
NEXT BNext
INVARIANT FoldWellTiled
INVARIANT BExport
CHECK_DEADLOCK FALSE
