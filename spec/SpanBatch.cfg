CONSTANTS
  P = 8
  Precs = {5}
  NCands = 2
INIT BInit
NEXT BNext
INVARIANT FoldWellTiled
INVARIANT BExport
CHECK_DEADLOCK FALSE
