CONSTANTS
  Alphabet = {"a"}
  MaxLen = 0
  RawAlphabet <- I6
  RawMaxLen = 8
SPECIFICATION ISpec
INVARIANT TypeOK
INVARIANT Tiles
INVARIANT MatchesOutside
INVARIANT IExport
CHECK_DEADLOCK FALSE
