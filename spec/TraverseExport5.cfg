CONSTANT MaxNodes = 5
INIT Init
NEXT Next
INVARIANT Faithful
INVARIANT Export
CHECK_DEADLOCK FALSE
