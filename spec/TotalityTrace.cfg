INIT TInit
NEXT TNext
INVARIANT Report
CHECK_DEADLOCK FALSE
