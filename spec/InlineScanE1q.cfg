CONSTANTS
  Alphabet = {"a"}
  MaxLen = 0
  RawAlphabet <- E1
  RawMaxLen = 5
SPECIFICATION ISpec
INVARIANT TypeOK
INVARIANT Tiles
INVARIANT MatchesOutside
INVARIANT IExport
CHECK_DEADLOCK FALSE
