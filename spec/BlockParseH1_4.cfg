CONSTANTS
  Alphabet = {"<div>", "</div>", "<pre>", "</pre>", "<!-- c", "c -->", "<x>", "a", "", "> <div>", "  <div>", "    <div>", "> a"}
  MaxLines = 4
SPECIFICATION Spec
INVARIANT TypeOK
INVARIANT StateIsParse
INVARIANT Ordered2
INVARIANT Nested
INVARIANT QuoteLaw
INVARIANT ListLaw
INVARIANT ConcatLaw
INVARIANT Export
CHECK_DEADLOCK FALSE
