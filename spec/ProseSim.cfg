CONSTANTS
  Pool = "all"
  MaxLines = 4
  MaxPerLine = 5
  MaxLexemes = 0
INIT Init
NEXT Next
INVARIANT TypeOK
INVARIANT Export
CHECK_DEADLOCK FALSE
