CONSTANTS
  Alphabet = {"a", "*", "[", "]", "!"}
  MaxLen = 8
INIT Init
NEXT Next
INVARIANT TypeOK
INVARIANT LinksDisjoint
INVARIANT NoStraddle
INVARIANT Laminar
INVARIANT Export
CHECK_DEADLOCK FALSE
