CONSTANTS
  Alphabet = {"<PRE>", "</style>", "<div", "<span>a", "<x y>", "</x>", "<x/>", "<pre>a</pre>", "<script>", "a", "", "<!d>", "<!D a", "<?p", "?>"}
  MaxLines = 3
SPECIFICATION Spec
INVARIANT TypeOK
INVARIANT StateIsParse
INVARIANT Ordered2
INVARIANT Nested
INVARIANT QuoteLaw
INVARIANT ListLaw
INVARIANT ConcatLaw
INVARIANT Export
CHECK_DEADLOCK FALSE
