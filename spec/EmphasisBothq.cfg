CONSTANTS
  Alphabet = {"a", "*", "_"}
  MaxLen = 10
INIT Init
NEXT Next
INVARIANT TypeOK
INVARIANT Laminar
INVARIANT NonEmpty
INVARIANT Export
CHECK_DEADLOCK FALSE
