CONSTANTS
  Alphabet = {"a"}
  MaxLen = 0
  RawAlphabet = {"a"}
  RawMaxLen = 1
  LineAlphabet <- N4
  LineMaxLen = 7
SPECIFICATION NSpec
INVARIANT TypeOK
INVARIANT Tiles
INVARIANT MatchesOutside
INVARIANT NExport
CHECK_DEADLOCK FALSE
