CONSTANTS
  P = 3
  Precs = {3, 5, 7}
  NCands = 3
  Enclosed = TRUE
INIT Init
NEXT Next
INVARIANT FoldWellTiled
INVARIANT EnclosedRule
INVARIANT Export
CHECK_DEADLOCK FALSE
