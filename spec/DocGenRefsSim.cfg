CONSTANTS
  MaxBlocks = 9
  MaxDepth = 3
  Level = 2
  EnabledKinds = {"para", "def", "atx", "setext", "quote", "list"}
INIT Init
NEXT Next
INVARIANT TypeOK
INVARIANT LinesOrdered
INVARIANT FirstWins
INVARIANT Export
CHECK_DEADLOCK FALSE
