--------------------------- MODULE TotalityTrace ---------------------------
EXTENDS Totality, Json, IOUtils
Recs == ndJsonDeserialize(IOEnv.TRACE_FILE)
VARIABLES tid, verdict
TInit == tid \in 1..Len(Recs) /\ verdict = Judge(Recs[tid])
TNext == UNCHANGED <<tid, verdict>>
Report == verdict = "ok" \/ PrintT(ToJson([tid |-> tid, verdict |-> verdict]))
=============================================================================
