------------------------------ MODULE Traverse ------------------------------
(***************************************************************************)
(* C12: the tree-walking utility, as a state machine shaped like           *)
(* utils.traverse (two frontier lists of (parent, child) pairs, a level    *)
(* counter), explored by TLC over every tree of at most MaxNodes nodes,    *)
(* two token classes, every class filter, depth limit and include_source.  *)
(* Property tier: TreeShape!ExpectedYields.  TLC checks that the machine   *)
(* terminates having yielded exactly that set, each element once.          *)
(* Every explored case is exported and replayed through the real           *)
(* utils.traverse on a token tree of the same shape (spec -> code).        *)
(***************************************************************************)
EXTENDS Naturals, Sequences, FiniteSets, TLC, Json
CONSTANT MaxNodes

TS == INSTANCE TreeShape

VARIABLES n, par, cls, klass, limit, incl,      \* the case
          pc, depth, frontier, newFrontier, idx, yielded
vars == <<n, par, cls, klass, limit, incl, pc, depth, frontier, newFrontier, idx, yielded>>

Classes == {"A", "B"}

KidsSeq(k) == LET S == {c \in 2..n : par[c] = k} IN
              [i \in 1..Cardinality(S) |-> CHOOSE c \in S : Cardinality({x \in S : x < c}) = i - 1]

Dump == [k \in 1..n |-> [kids |-> KidsSeq(k), mro |-> <<cls[k], "Token">>]]

Pairs(k) == [i \in DOMAIN KidsSeq(k) |-> <<k, KidsSeq(k)[i]>>]
Match(k) == klass = "" \/ cls[k] = klass \/ klass = "Token"

Init ==
    /\ n \in 1..MaxNodes
    /\ par \in [2..MaxNodes -> 1..MaxNodes]
    /\ \A c \in 2..MaxNodes : IF c <= n THEN par[c] < c ELSE par[c] = 1
    /\ cls \in [1..MaxNodes -> Classes]
    /\ \A c \in (n+1)..MaxNodes : cls[c] = "A"
    /\ klass \in {"", "A", "Token"}
    /\ limit \in 0..3
    /\ incl \in BOOLEAN
    /\ pc = "start" /\ depth = 0 /\ frontier = <<>> /\ newFrontier = <<>> /\ idx = 0 /\ yielded = <<>>

Start ==
    /\ pc = "start"
    /\ yielded' = IF incl /\ Match(1) THEN <<[node |-> 1, parent |-> 0, depth |-> 0]>> ELSE <<>>
    /\ frontier' = Pairs(1)
    /\ pc' = "level"
    /\ UNCHANGED <<n, par, cls, klass, limit, incl, depth, newFrontier, idx>>

Level ==
    /\ pc = "level"
    /\ IF frontier # <<>> /\ (limit = 0 \/ depth < limit)
       THEN depth' = depth + 1 /\ newFrontier' = <<>> /\ idx' = 1 /\ pc' = "visit"
       ELSE pc' = "done" /\ UNCHANGED <<depth, newFrontier, idx>>
    /\ UNCHANGED <<n, par, cls, klass, limit, incl, frontier, yielded>>

Visit ==
    /\ pc = "visit"
    /\ IF idx <= Len(frontier)
       THEN LET p == frontier[idx][1]  c == frontier[idx][2] IN
            /\ yielded' = IF Match(c) THEN Append(yielded, [node |-> c, parent |-> p, depth |-> depth]) ELSE yielded
            /\ newFrontier' = newFrontier \o Pairs(c)
            /\ idx' = idx + 1
            /\ UNCHANGED <<pc, frontier>>
       ELSE /\ frontier' = newFrontier /\ pc' = "level"
            /\ UNCHANGED <<yielded, newFrontier, idx>>
    /\ UNCHANGED <<n, par, cls, klass, limit, incl, depth>>

Next == Start \/ Level \/ Visit

Expected == TS!ExpectedYields(Dump, 1, klass, limit, incl)

Faithful == pc = "done" =>
    /\ {yielded[i] : i \in DOMAIN yielded} = Expected
    /\ Cardinality({yielded[i] : i \in DOMAIN yielded}) = Len(yielded)

(* the walk is finite: the frontier can be refilled at most n times *)
Bounded == depth <= n

Export == pc = "done" =>
    PrintT(ToJson([n |-> n, par |-> [c \in 2..n |-> par[c]], parSeq |-> [i \in 1..(n-1) |-> par[i+1]],
                   cls |-> [i \in 1..n |-> cls[i]], klass |-> klass, limit |-> limit,
                   incl |-> IF incl THEN "yes" ELSE "no", yields |-> yielded]))
=============================================================================
