CONSTANTS
  Alphabet = {"a", "*"}
  MaxLen = 14
INIT Init
NEXT Next
INVARIANT TypeOK
INVARIANT Laminar
INVARIANT NonEmpty
INVARIANT Export
CHECK_DEADLOCK FALSE
