CONSTANTS
  Alphabet = {"a"}
  MaxLen = 0
INIT BInit
NEXT BNext
INVARIANT TypeOK
INVARIANT Laminar
INVARIANT NonEmpty
INVARIANT BExport
CHECK_DEADLOCK FALSE
