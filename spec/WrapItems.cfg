CONSTANTS
  MaxItems = 3
  MaxLen = 3
  Budgets = {1}
  Mode = "items"
  MaxPath = 1
  Templates = {"plain1", "plain3", "em"}
INIT Init
NEXT Next
INVARIANT ExportItems
CHECK_DEADLOCK FALSE
