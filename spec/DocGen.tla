------------------------------- MODULE DocGen -------------------------------
(***************************************************************************)
(* The typing model (C03, C07, C13; feeds C08, C09, C10, C12, C17).         *)
(*                                                                         *)
(* A user types a document block by block.  The state holds                *)
(*   src     the source lines typed so far (real strings, no line ends)    *)
(*   open    the stack of open containers (outermost first); a frame has   *)
(*           the text that precedes content on the container's first line  *)
(*           and on every later line                                       *)
(*   nodes   the tree the user means, as a flat table: type, parent, the   *)
(*           line on which the block starts, and type-specific fields      *)
(*   loose   the lists that have become loose (derived from the blank      *)
(*           lines actually typed, never chosen)                           *)
(*   defs    link reference definitions in source order                    *)
(*   last    what the previous sibling at the current level was            *)
(* Every action appends lines and nodes; its guard is the CommonMark rule  *)
(* that makes the typed text mean what the user intends (what may follow   *)
(* what without a blank line, marker / thematic-break coincidences, list   *)
(* types that would merge, ...).  HtmlOf writes the HTML of the intended   *)
(* tree.  A finished behaviour exports source, HTML, block line numbers    *)
(* and definitions; the harness pushes the source through the real parser  *)
(* and compares.                                                           *)
(***************************************************************************)
EXTENDS Naturals, Sequences, FiniteSets, TLC, Json, IOUtils

CONSTANTS MaxBlocks,      \* leaf blocks + definitions per document
          MaxDepth,       \* container nesting
          EnabledKinds,   \* which kinds of blocks may be typed: subset of {"para","atx","setext","hr","fence","code","def","quote","list"}
          Level           \* spelling ranges: 0 minimal (deep exhaustive), 1 moderate (shallow exhaustive), 2 full (simulation)

VARIABLES src, open, nodes, loose, defs, last, nblocks, phase, tags, target
vars == <<src, open, nodes, loose, defs, last, nblocks, phase, tags, target>>

---------------------------------------------------------------------------
Rich == Level = 2
Pick(a, b, c) == CASE Level = 0 -> a [] Level = 1 -> b [] OTHER -> c

(* strings *)
Spaces(n) == SubSeq("                    ", 1, n)
RECURSIVE RStrip(_)
RStrip(s) == IF Len(s) > 0 /\ SubSeq(s, Len(s), Len(s)) = " " THEN RStrip(SubSeq(s, 1, Len(s) - 1)) ELSE s
RECURSIVE Join(_, _)
Join(ss, sep) == IF ss = << >> THEN "" ELSE IF Len(ss) = 1 THEN ss[1] ELSE ss[1] \o sep \o Join(Tail(ss), sep)
RECURSIVE Digits(_)
Digits(n) == IF n < 10 THEN SubSeq("0123456789", n + 1, n + 1) ELSE Digits(n \div 10) \o SubSeq("0123456789", (n % 10) + 1, (n % 10) + 1)

---------------------------------------------------------------------------
(* inline content: a paragraph or heading text is a sequence of atoms *)
W(a)        == [k |-> "w", a |-> a, b |-> ""]
Em(a)       == [k |-> "em", a |-> a, b |-> ""]
Strong(a)   == [k |-> "strong", a |-> a, b |-> ""]
Code(a)     == [k |-> "code", a |-> a, b |-> ""]
Link(a, b)  == [k |-> "link", a |-> a, b |-> b]
Ref(a)      == [k |-> "ref", a |-> a, b |-> ""]          \* shortcut reference  [a]
Full(a, b)  == [k |-> "full", a |-> a, b |-> b]          \* full reference      [a][b]
Coll(a)     == [k |-> "coll", a |-> a, b |-> ""]         \* collapsed reference [a][]
ImgRef(a)   == [k |-> "imgref", a |-> a, b |-> ""]       \* image, shortcut reference ![a]
Raw(a, b)   == [k |-> "raw", a |-> a, b |-> b]               \* spelled construct a with its HTML b (checked by hand against CommonMark 0.30)
Soft        == [k |-> "soft", a |-> "", b |-> ""]        \* line end inside a paragraph
Hard        == [k |-> "hard", a |-> "", b |-> ""]        \* backslash + line end

(* labels: variants of one base match each other (case, inner whitespace); near-duplicates do not *)
(* "{SZ}" stands for LATIN CAPITAL LETTER SHARP S (the harness puts the character in): it matches "SS" by Unicode case folding *)
Base(l) == CASE l \in {"foo", "FOO", "Foo"}           -> "foo"
             [] l \in {"{SZ}", "SS", "ss"}            -> "ss"
             [] l \in {"bar baz", "Bar  BAZ", "bar{TAB}baz"} -> "bar baz"       \* "{TAB}": the harness puts a tab character in
             [] OTHER                                 -> l
LabelPool == Pick({"foo", "FOO"}, {"foo", "FOO", "foob"}, {"foo", "FOO", "bar baz", "Bar  BAZ", "foob"})

AtomSrc(a) ==
    CASE a.k = "w"      -> a.a
      [] a.k = "em"     -> "*" \o a.a \o "*"
      [] a.k = "strong" -> "__" \o a.a \o "__"
      [] a.k = "code"   -> "`" \o a.a \o "`"
      [] a.k = "link"   -> "[" \o a.a \o "](" \o a.b \o ")"
      [] a.k = "ref"    -> "[" \o a.a \o "]"
      [] a.k = "full"   -> "[" \o a.a \o "][" \o a.b \o "]"
      [] a.k = "coll"   -> "[" \o a.a \o "][]"
      [] a.k = "imgref" -> "![" \o a.a \o "]"
      [] a.k = "raw"    -> a.a

(* first definition in source order whose label has the same base; 0 = none *)
Resolve(ds, l) == LET C == {i \in DOMAIN ds : Base(ds[i].label) = Base(l)} IN
                  IF C = {} THEN 0 ELSE CHOOSE i \in C : \A j \in C : i <= j

Attr(d) == "href=\"" \o d.href \o "\"" \o (IF d.title = "" THEN "" ELSE " title=\"" \o d.title \o "\"")

AtomHtml(a, ds) ==
    CASE a.k = "w"      -> a.a
      [] a.k = "em"     -> "<em>" \o a.a \o "</em>"
      [] a.k = "strong" -> "<strong>" \o a.a \o "</strong>"
      [] a.k = "code"   -> "<code>" \o a.a \o "</code>"
      [] a.k = "link"   -> "<a href=\"" \o a.b \o "\">" \o a.a \o "</a>"
      [] a.k = "ref"    -> IF Resolve(ds, a.a) = 0 THEN "[" \o a.a \o "]"
                           ELSE "<a " \o Attr(ds[Resolve(ds, a.a)]) \o ">" \o a.a \o "</a>"
      [] a.k = "full"   -> IF Resolve(ds, a.b) = 0 THEN "[" \o a.a \o "][" \o a.b \o "]"
                           ELSE "<a " \o Attr(ds[Resolve(ds, a.b)]) \o ">" \o a.a \o "</a>"
      [] a.k = "coll"   -> IF Resolve(ds, a.a) = 0 THEN "[" \o a.a \o "][]"
                           ELSE "<a " \o Attr(ds[Resolve(ds, a.a)]) \o ">" \o a.a \o "</a>"
      [] a.k = "imgref" -> IF Resolve(ds, a.a) = 0 THEN "![" \o a.a \o "]"
                           ELSE LET d == ds[Resolve(ds, a.a)] IN
                                "<img src=\"" \o d.href \o "\" alt=\"" \o a.a \o "\"" \o (IF d.title = "" THEN "" ELSE " title=\"" \o d.title \o "\"") \o " />"
      [] a.k = "raw"    -> a.b
      [] a.k = "soft"   -> "\n"
      [] a.k = "hard"   -> "<br />\n"

(* a text line is a sequence of atoms separated by single spaces; a text is a sequence of lines *)
LineSrc(ln) == Join([i \in DOMAIN ln |-> AtomSrc(ln[i])], " ")
LineHtml(ln, ds) == Join([i \in DOMAIN ln |-> AtomHtml(ln[i], ds)], " ")
TextHtml(tx, ds) == Join([i \in DOMAIN tx |-> LineHtml(tx[i].atoms, ds) \o (IF tx[i].hard THEN "<br />" ELSE "")], "\n")

(* a full reference whose label is unknown stays literal text as a whole: its first bracket pair is followed by a link
   label and therefore is no shortcut reference (CommonMark 6.3), even when its text is a defined label: Full("foo", "nope") *)

Words == <<"alpha", "beta", "gamma", "delta", "eps", "zeta", "eta", "theta", "iota", "kappa", "lam", "mu">>
WordAt(n) == Words[((n - 1) % Len(Words)) + 1]

(* one-line texts; n makes the words distinct from block to block *)
LineSeq(n) ==
    LET w == WordAt(n) IN
    Pick(<< <<W(w)>>, <<Ref("foo"), W(w)>> >>,
         << <<W(w)>>, <<W(w), Em("em")>>, <<Ref("foo"), W(w)>>, <<W(w), Ref("FOO")>>, <<Full("text", "foob")>>, <<Full("foo", "nope"), W(w)>> >>,
         << <<W(w)>>, <<W(w), Em("em"), Code("co")>>, <<Link("ln", "/uri"), W(w)>>, <<Ref("foo"), W(w)>>, <<W(w), Ref("FOO")>>,
            <<Full("text", "Bar  BAZ"), W(w)>>, <<Coll("bar baz")>>, <<W(w), Ref("foob")>>, <<ImgRef("Foo"), W(w)>>, <<Strong("st"), W(w)>>,
            <<W(w), Full("text", "foo")>>, <<W(w), W("two"), W("three")>>,
            <<W(w), Raw("**_a_**", "<strong><em>a</em></strong>"), W("x")>>, <<Raw("(_a_)", "(<em>a</em>)"), W(w)>>,
            <<W(w), Raw("_\"a\"_", "<em>\"a\"</em>"), W("x")>>, <<Raw("*__a__*", "<em><strong>a</strong></em>"), W(w)>>,
            <<W(w), Raw("__*a*__", "<strong><em>a</em></strong>")>>, <<Raw("*[ln](/uri)*", "<em><a href=\"/uri\">ln</a></em>"), W(w)>>,
            <<W(w), Raw("_[ln](/uri)_", "<em><a href=\"/uri\">ln</a></em>"), W("x")>>, <<Raw("**`co`**", "<strong><code>co</code></strong>"), W(w)>>,
            <<W(w), Raw("**_[ln](/uri)_**", "<strong><em><a href=\"/uri\">ln</a></em></strong>")>>, <<Raw("(_\"a\"_)", "(<em>\"a\"</em>)"), W(w)>>,
            <<W(w), Raw("*__`co`__*", "<em><strong><code>co</code></strong></em>"), W("x")>>,
            <<W(w), Ref("{SZ}")>>, <<Ref("SS"), W(w)>>, <<W(w), Ref("bar{TAB}baz")>>,
            <<W(w), Raw("\\*lit\\*", "*lit*"), Raw("\\[x\\]", "[x]")>>, <<Raw("&amp;", "&amp;"), W(w), Raw("&lt;b&gt;", "&lt;b&gt;"), Raw("&#35;", "#")>>,
            <<W(w), Raw("<http://x.y/z?a=1>", "<a href=\"http://x.y/z?a=1\">http://x.y/z?a=1</a>")>>, <<Raw("<b>raw</b>", "<b>raw</b>"), W(w)>>,
            <<W(w), Raw("``a`b``", "<code>a`b</code>"), Raw("` a `", "<code>a</code>")>>, <<Raw("~~gone~~", "<del>gone</del>"), W(w)>>,
            <<W(w), Raw("![alt *e*](/i \"t\")", "<img src=\"/i\" alt=\"alt e\" title=\"t\" />")>>, <<Raw("[a `c`](</d e> 'q')", "<a href=\"/d%20e\" title=\"q\">a <code>c</code></a>"), W(w)>>,
            <<W(w), Raw("a*b*c", "a<em>b</em>c"), Raw("snake_case_word", "snake_case_word")>>,
            <<Full("foo", "nope"), W(w)>>, <<W(w), Full("FOO", "nope")>>, <<Raw("![foo][nope]", "![foo][nope]"), W(w)>>,
            <<W(w), Raw("[a](<> \"t\")", "<a href=\"\" title=\"t\">a</a>")>>, <<Raw("[a](<>)", "<a href=\"\">a</a>"), W(w)>>,
            <<W(w), Raw("![i](<> 't')", "<img src=\"\" alt=\"i\" title=\"t\" />")>>,
            <<W(w), Raw("<b>{TAB}raw</b>", "<b>{TAB}raw</b>"), W("x>{TAB}y")>>,
            (* an escaped backslash directly before a construct is a backslash and does not disable the construct *)
            <<W(w), Raw("\\\\~~gone~~", "\\<del>gone</del>"), Raw("\\\\`co`", "\\<code>co</code>")>>,
            <<Raw("\\\\*em*", "\\<em>em</em>"), W(w)>>,
            <<W(w), Raw("\\\\<b>x</b>", "\\<b>x</b>"), Raw("\\\\<http://x.y>", "\\<a href=\"http://x.y\">http://x.y</a>")>>,
            (* the other forms of raw HTML in their shortest spellings *)
            <<W(w), Raw("<!---->", "<!---->"), Raw("<??>", "<??>"), Raw("<!a b>", "<!a b>")>> >>)          \* a tab directly behind ">" inside the text

(* spelling variants: every action draws one index v and derives its free spelling choices from it, so that in
   simulation mode every kind of block is typed about equally often; over many documents all combinations occur *)
Variants == Pick({0, 1}, 0..3, 0..13)
At(sq, i) == sq[(i % Len(sq)) + 1]
LineAt(v) == At(LineSeq(nblocks + 1), 2 * v + 3 * nblocks)

(* whitespace at the end of a structural line (underline, rule, fence): nothing, two spaces, or a tab - never significant *)
Trail(v) == IF Level = 2 THEN At(<<"", "", "  ", "", "{TAB}", "">>, v \div 3) ELSE ""


---------------------------------------------------------------------------
(* containers *)
(* a line is assembled from the inside out: a quote frame typed "bare" writes its marker without the optional space when
   what follows on the line is not empty and does not start with a space (otherwise the marker would swallow that space) *)
RECURSIVE Assemble(_, _, _, _)
Assemble(fr, mode, keep, content) ==       \* mode: "now" (first-line prefixes where pending) | "rest" | "lazy" (only the outermost `keep` frames)
    IF fr = << >> THEN content
    ELSE LET f == Head(fr)
             dropped == mode = "lazy" /\ keep = 0
             inner == Assemble(Tail(fr), mode, IF mode = "lazy" /\ keep > 0 THEN keep - 1 ELSE keep, content)
             p == IF mode = "now" /\ ~f.started THEN f.first ELSE f.rest IN
         IF dropped THEN inner
         ELSE IF f.kind = "quote" /\ f.bare /\ inner # "" /\ SubSeq(inner, 1, 1) # " " THEN ">" \o inner
         ELSE p \o inner
LineNow(content)  == Assemble(open, "now", 0, content)
LineRest(content) == Assemble(open, "rest", 0, content)
LineLazy(keep, content) == Assemble(open, "lazy", keep, content)
PrefixRest(fr) == Assemble(fr, "rest", 0, "")
Started(fr) == [i \in DOMAIN fr |-> [fr[i] EXCEPT !.started = TRUE]]

Depth == Len(open)

(* width of the spaces that start the rest-prefix of a run of frames (item frames contribute their content offset, a
   quote frame ends the run); second component: the run consisted of item frames only *)
RECURSIVE LeadItems(_)
LeadItems(fr) == IF fr = << >> THEN <<0, TRUE>>
                 ELSE IF Head(fr).kind = "item" THEN <<Len(Head(fr).rest) + LeadItems(Tail(fr))[1], LeadItems(Tail(fr))[2]>>
                 ELSE <<0, FALSE>>
(* recorded finding (known_findings.json, C03-lazy-after-indented-quote-content): a lazy continuation line that leaves a
   block quote whose previous line, behind the quote marker, starts with four or more spaces (because the paragraph
   sits in list items inside the quote) *)
KF_LazyIndented(keep, ind) ==
    \E q \in (keep + 1)..Len(open) :
        /\ open[q].kind = "quote"
        /\ LET r == LeadItems(SubSeq(open, q + 1, Len(open))) IN r[1] + (IF r[2] THEN ind ELSE 0) >= 4
Top == open[Len(open)]
Parent == IF open = << >> THEN 1 ELSE Top.node          \* node 1 is the document
InItemFirstLine == open # << >> /\ Top.kind = "item" /\ ~Top.started
AllStarted == \A i \in DOMAIN open : open[i].started
InQuote == \E i \in DOMAIN open : open[i].kind = "quote"

BlankLine == RStrip(PrefixRest(open))

(* The Markdown renderer's own spelling of a blank line inside a block quote keeps the space after the innermost quote
   marker ("> "); outside any quote it is the empty line.  "blankc" types that spelling, "blank" the stripped one. *)
QuoteIdx(fr) == {i \in DOMAIN fr : fr[i].kind = "quote"}
BlankC(fr) == IF QuoteIdx(fr) = {} THEN RStrip(PrefixRest(fr))
              ELSE PrefixRest(SubSeq(fr, 1, CHOOSE q \in QuoteIdx(fr) : \A r \in QuoteIdx(fr) : r <= q))
BlankOf(fr, sep) == IF sep = "blankc" THEN BlankC(fr) ELSE IF sep = "blankt" THEN BlankC(fr) \o "{TAB}" ELSE RStrip(PrefixRest(fr))

(* separator before a new sibling: "none", "blank" or (inside a quote) "blankc" *)
Seps == {"none", "blank"} \cup (IF InQuote THEN {"blankc"} ELSE {}) \cup (IF Level = 2 THEN {"blankt"} ELSE {})     \* "blankt": a blank line that holds a tab
IsBlank(sep) == sep \in {"blank", "blankc", "blankt"}
SepLines(sep) == IF IsBlank(sep) THEN <<BlankOf(open, sep)>> ELSE << >>

(* tag "title-like-word-after-definition": text that directly follows a link reference definition and begins with a word
   that would read as the definition's title if it stood alone on its line - ( " or ' first.  As typed it is text (more
   words follow on the line); a reflow may leave it alone on a line.  C10 sets this class aside ("prose words that cannot
   be mistaken for block markers at the start of a line"). *)
TitleLike(sep, l1) == IF sep = "none" /\ last.inner = "def" /\ l1 # << >> /\ SubSeq(LineSrc(l1), 1, 1) \in {"(", "\"", "'"}
                      THEN {"title-like-word-after-definition"} ELSE {}

(* tag "nc": the document uses a spelling the Markdown renderer does not write itself (it is not in the renderer's normal form) *)
NcIf(c) == IF c THEN {"nc"} ELSE {}
NormalForm == "nc" \notin tags             \* (state constraint of the configuration that enumerates the renderer's normal form with the full spelling ranges)
NcSep(sep) == NcIf((sep = "blank" /\ InQuote) \/ sep = "blankt")

(* may `next` follow the previous sibling without a blank line?  (CommonMark: what may interrupt a paragraph; nothing
   merges with a heading, a thematic break, a closed fence or a definition; a closed container needs a blank line
   here; indented code is always typed after a blank line) *)
AfterPara == {"atx", "fence", "quote", "hrstar", "blist", "olist1", "html"}
NoBlankOk(next) ==
    CASE last.kind \in {"atx", "setext", "hr", "fence", "def"} -> next \notin {"code", "table"}
      [] last.kind = "para"  -> next \in AfterPara
      [] last.kind \in {"quote", "list"} ->
            (* directly after a closed container.  If its last block is an open paragraph only a block that interrupts a
               paragraph may follow; otherwise nothing is lazy and any block may follow (text that follows is NOT a lazy
               continuation: tag "lazy-after-nonpara").  A quote directly after a quote would continue it. *)
            /\ ~(last.kind = "quote" /\ next = "quote")
            /\ last.inner # "table"
            /\ next \notin {"code", "table", "elist"}
            /\ (last.inner = "para" => next \in AfterPara)
      [] OTHER -> FALSE

LazyTag(sep) == IF sep = "none" /\ last.kind \in {"quote", "list"} THEN {"lazy-after-nonpara"} ELSE {}

(* a definition typed directly in a list item: whether a blank line next to it makes the list loose is not settled by
   the specification text (the definition is not a block of the item), so no blank line is typed next to it there *)
DefInItem == last.kind = "def" /\ open # << >> /\ Top.kind = "item"

SepOk(sep, next) ==
    IF last.kind = "none" THEN sep = "none"
    ELSE IF DefInItem \/ (next = "def" /\ open # << >> /\ Top.kind = "item") THEN sep = "none" /\ NoBlankOk(next)
    ELSE IsBlank(sep) \/ NoBlankOk(next)

(* a blank line between two direct children of a list item makes its list loose *)
LooseAfter(sep) == IF IsBlank(sep) /\ open # << >> /\ Top.kind = "item" THEN loose \cup {Top.list} ELSE loose

Node(t, p, ln, lv, tx, x) == [t |-> t, p |-> p, ln |-> ln, lv |-> lv, tx |-> tx, x |-> x]
NoText == << >>

Budget == nblocks < MaxBlocks /\ phase = "typing"

(* sharding of exhaustive runs over separate TLC processes: a shard explores the documents whose first block is of one kind *)
FirstKindOk(kind) == kind \in EnabledKinds /\ (IOEnv.SHARD = "-" \/ Len(nodes) > 1 \/ defs # << >> \/ open # << >> \/ IOEnv.SHARD = kind)

---------------------------------------------------------------------------
(* leaf blocks.  `lines` are the content lines (without container prefixes) *)
Leaf(kindForSep, kindForLast, sep, node, lines, lazyKeep) ==
    /\ Budget
    /\ FirstKindOk(kindForLast)
    /\ SepOk(sep, kindForSep)
    /\ LET sl == SepLines(sep)
           first == LineNow(lines[1])
           rest == [i \in 1..(Len(lines) - 1) |->
                      IF lines[i + 1] = "" THEN RStrip(PrefixRest(open))
                      ELSE (IF lazyKeep < Depth THEN LineLazy(lazyKeep, lines[i + 1]) ELSE LineRest(lines[i + 1]))] IN
       /\ src' = src \o sl \o <<first>> \o rest
       /\ nodes' = Append(nodes, [node EXCEPT !.ln = Len(src) + Len(sl) + 1])
    /\ loose' = LooseAfter(sep)
    /\ open' = Started(open)
    /\ last' = [kind |-> kindForLast, mtype |-> "", inner |-> kindForLast]
    /\ nblocks' = nblocks + 1
    /\ UNCHANGED <<defs, phase, target>>

Inds == Pick({0}, {0, 2}, 0..3)
IndOk(ind) == ind = 0 \/ (~InItemFirstLine /\ last.kind # "list")

TypePara ==
    \E sep \in Seps, v \in Variants, keep \in 0..Depth :
       LET ind == At(Pick(<<0>>, <<0, 2>>, <<0, 1, 2, 3>>), v)
           l1 == LineAt(v)
           two == (v % 2 = 1) \/ keep < Depth
           hard == two /\ Level = 2 /\ v % 4 = 3
           hardsp == two /\ Level = 2 /\ v % 8 = 1               \* the other spelling of a hard line break: two spaces before the line end
           (* the indentation of the first line spelled as a tab: it reaches the next tab stop, counted from the beginning of the
              line - fewer than four columns (so no indented code) exactly when the container prefix does not end on a tab stop *)
           tab == Level = 2 /\ v % 7 = 3 /\ AllStarted /\ last.kind # "list" /\ Len(LineNow("x")) % 4 # 1
           (* GFM: "The header row must match the delimiter row in the number of cells. If not, a table will not be recognized" *)
           (* (a header row whose delimiter row has fewer cells: GFM says no table; mistletoe recognises one on purpose -
              test_block_token.TestTable.test_match_1 pins it - so the spelling is not typed) *)
           notable == FALSE IN
       /\ IndOk(ind)
       /\ (keep < Depth => v % 2 = 0)                            \* one lazy spelling per variant pair is enough
       /\ LET l2 == IF notable THEN <<W("|---|")>> ELSE <<W(WordAt(nblocks + 7)), W("cont")>>
              tx == IF notable THEN <<[atoms |-> <<W("| h1 | h2 |")>>, hard |-> FALSE], [atoms |-> l2, hard |-> FALSE]>> ELSE IF two THEN <<[atoms |-> l1, hard |-> hard \/ hardsp], [atoms |-> l2, hard |-> FALSE]>> ELSE <<[atoms |-> l1, hard |-> FALSE]>>
              lead == IF tab THEN "{TAB}" ELSE Spaces(ind)
              lines == IF notable THEN <<"| h1 | h2 |", "|---|">>
                       ELSE IF two THEN <<lead \o LineSrc(l1) \o (IF hard THEN "\\" ELSE IF hardsp THEN "  " ELSE ""), LineSrc(l2)>> ELSE <<lead \o LineSrc(l1)>> IN
          /\ Leaf("para", "para", sep, Node("Paragraph", Parent, 0, 0, tx, ""), lines, keep)
          /\ tags' = tags \cup (IF keep < Depth THEN {"lazy-continuation"} ELSE {}) \cup LazyTag(sep)
                          \cup (IF keep < Depth /\ KF_LazyIndented(keep, ind) THEN {"lazy-after-indented-quote-content"} ELSE {})
                          \cup NcIf(ind > 0 \/ keep < Depth \/ (tab /\ ~notable)) \cup NcSep(sep) \cup TitleLike(sep, l1)
                          (* recorded finding: inside nested containers the tab stop is counted from where the enclosing
                             containers' prefixes end (see OpenList) *)
                          \cup (IF tab /\ \E i \in 2..Depth : Len(PrefixRest(SubSeq(open, 1, i - 1))) % 4 # 0
                                THEN {"tab-stop-relative-to-container"} ELSE {})

TypeAtx ==
    \E sep \in Seps, v \in Variants :
       LET ind == At(Pick(<<0>>, <<0, 2>>, <<0, 1, 2, 3>>), v)
           lv == At(Pick(<<2>>, <<1, 2, 3>>, <<1, 2, 3, 4, 5, 6>>), v + nblocks)
           closing == At(Pick(<<"">>, <<"", " ##">>, <<"", " #", " ###  ">>), v)
           empty == (v + 3 * nblocks) % 5 = 4                      \* a heading without text: "##", "## ", "##  ##  ", "## #"
           l1 == IF empty THEN << >> ELSE LineAt(v)
           sp1 == IF Level = 2 /\ v % 6 = 5 THEN "{TAB}" ELSE " "          \* the hashes are followed by spaces or tabs
           closingT == IF Level = 2 /\ v % 6 = 4 /\ closing = " #" THEN "{TAB}#" ELSE closing
           rest == IF empty THEN At(<<"", " ", "  ##  ", " #">>, v \div 2 + nblocks) ELSE sp1 \o LineSrc(l1) \o closingT IN
       /\ IndOk(ind)
       /\ Leaf("atx", "atx", sep, Node("Heading", Parent, 0, lv, <<[atoms |-> l1, hard |-> FALSE]>>, ""),
               <<Spaces(ind) \o SubSeq("######", 1, lv) \o rest>>, Depth)
       /\ tags' = tags \cup NcSep(sep) \cup NcIf(ind > 0 \/ (IF empty THEN rest # "" ELSE (closingT \notin {"", " #", " ##"} \/ sp1 # " ")))

TypeSetext ==
    \E sep \in Seps, v \in Variants :
       LET lv == 1 + (v % 2)
           ul == At(Pick(<<3>>, <<3>>, <<1, 2, 3>>), v)
           l1 == LineAt(v)
           twoLines == Level = 2 /\ v % 5 = 2                       \* the heading text may span lines
           l2 == <<W(WordAt(nblocks + 5)), W("more")>>
           uind == IF Level = 2 THEN At(<<0, 0, 1, 3>>, v \div 2) ELSE 0     \* the underline may be indented up to three spaces
           tx == IF twoLines THEN <<[atoms |-> l1, hard |-> FALSE], [atoms |-> l2, hard |-> FALSE]>> ELSE <<[atoms |-> l1, hard |-> FALSE]>>
           under == Spaces(uind) \o SubSeq(IF lv = 1 THEN "===" ELSE "---", 1, ul) \o Trail(v) IN
       /\ Leaf("setext", "setext", sep, Node("SetextHeading", Parent, 0, lv, tx, ""),
               IF twoLines THEN <<LineSrc(l1), LineSrc(l2), under>> ELSE <<LineSrc(l1), under>>, Depth)
       /\ tags' = tags \cup (IF InQuote THEN {"setext-in-quote"} ELSE {}) \cup LazyTag(sep) \cup NcSep(sep) \cup TitleLike(sep, l1)
                       \cup NcIf(uind > 0 \/ Trail(v) # "")

(* a thematic break; "---" cannot follow paragraph text directly (it would be a setext underline), and on the first
   line of a bullet item the characters of the marker would merge with it *)
TypeHr ==
    \E sep \in Seps, v \in Variants :
       LET ind == At(Pick(<<0>>, <<0, 2>>, <<0, 1, 2, 3>>), v \div 2)
           h == At(Pick(<<"***", "---">>, <<"***", "---", "* * *", "___">>, <<"***", "---", "___", "* * *", "-  -  -", "_____", "*{TAB}*{TAB}*", "_ _{TAB}_">>), v)
           ch == SubSeq(h, 1, 1) IN
       /\ IndOk(ind)
       /\ ~(InItemFirstLine /\ Top.marker = ch)
       /\ Leaf(IF ch = "-" THEN "hr" ELSE "hrstar", "hr", sep, Node("ThematicBreak", Parent, 0, 0, NoText, ""), <<Spaces(ind) \o h \o Trail(v)>>, Depth)
       /\ tags' = tags \cup NcSep(sep) \cup NcIf(ind > 0 \/ Trail(v) # "")

Bodies == Pick(<< <<"a", "", "  b">> >>, << << >>, <<"a", "", "  b">> >>,
               << << >>, <<"code">>, <<"a", "", "  b">>, <<"# not a heading", "> nor a quote">>, <<"- x", "***">>, <<"x = 1  ", "y">> >>)      \* (the last one: spaces at the end of a code line are content)

TypeFence ==
    \E sep \in Seps, v \in Variants :
       LET ind == At(Pick(<<0>>, <<0, 1>>, <<0, 1, 2, 3>>), v)
           ch == At(Pick(<<"`">>, <<"`", "~">>, <<"`", "~">>), v \div 2)
           n == At(Pick(<<3>>, <<3>>, <<3, 4, 5>>), v)
           info == At(Pick(<<"">>, <<"", "py">>, <<"", "py">>), v \div 3)
           body == At(Bodies, v + nblocks)
           closeExtra == IF Level = 2 /\ v % 5 = 4 THEN 1 ELSE 0
           fence == SubSeq(IF ch = "`" THEN "``````" ELSE "~~~~~~", 1, n)
           infosp == IF Level = 2 /\ info # "" /\ v % 4 = 1 THEN " " ELSE ""       \* the info string may be separated from the fence
           lines == <<Spaces(ind) \o fence \o infosp \o info \o Trail(v + 1)>> \o [i \in DOMAIN body |-> IF body[i] = "" THEN "" ELSE Spaces(ind) \o body[i]]
                    \o <<Spaces(ind) \o fence \o SubSeq(fence, 1, closeExtra) \o Trail(v)>> IN
       /\ IndOk(ind)
       /\ Leaf("fence", "fence", sep, Node("CodeFence", Parent, 0, 0, NoText, [info |-> info, body |-> body]), lines, Depth)
       /\ tags' = tags \cup NcSep(sep) \cup NcIf(closeExtra = 1 \/ (InQuote /\ \E i \in DOMAIN body : body[i] = "") \/ Trail(v) # "" \/ Trail(v + 1) # "" \/ infosp # "")

(* indented code: never directly after paragraph text, not after another indented code block or a list (it would
   merge), not as the first block of a list item (the indentation would be marker padding) *)
TypeIndented ==
    \E two \in BOOLEAN, sep \in Seps :
       /\ (sep = "none") = (last.kind = "none")
       /\ last.kind \notin {"code", "list"}
       /\ (InItemFirstLine => Top.pad = 1)      \* "-     code": one space of padding, then the four of the code block
       /\ ~DefInItem
       /\ LET body == IF two THEN <<"code one", "  code two">> ELSE <<"code one">> IN
          Leaf("code", "code", sep, Node("BlockCode", Parent, 0, 0, NoText, [info |-> "", body |-> body]),
               [i \in DOMAIN body |-> "    " \o body[i]], Depth)
       /\ tags' = tags \cup NcSep(sep)

(* GFM table: header row, delimiter row, one or two body rows (a short row is padded with empty cells).  Always typed
   after a blank line and followed by one: a table may swallow or be swallowed by adjacent paragraph text. *)
Dashes(n) == SubSeq("------------------------------", 1, n)
Max2(a, b) == IF a > b THEN a ELSE b
RECURSIVE MaxLen(_, _)
MaxLen(ss, c) == IF ss = << >> THEN 0 ELSE Max2(IF c <= Len(Head(ss)) THEN Len(Head(ss)[c]) ELSE 0, MaxLen(Tail(ss), c))
AlignKind(a) == IF SubSeq(a, 1, 1) = ":" /\ SubSeq(a, Len(a), Len(a)) = ":" THEN "center"
                ELSE IF SubSeq(a, Len(a), Len(a)) = ":" THEN "right" ELSE "left"
(* the Markdown renderer's own layout of a table: every column as wide as its widest cell (at least 3), cells padded
   according to the alignment (centred text gets the odd space on the right), dashes across the whole width *)
PadCell(t, w, k) == LET n == w - Len(t) IN
                    CASE k = "left" -> t \o Spaces(n) [] k = "right" -> Spaces(n) \o t [] OTHER -> Spaces(n \div 2) \o t \o Spaces(n - n \div 2)
DelimCell(w, k) == CASE k = "left" -> Dashes(w) [] k = "right" -> Dashes(w - 1) \o ":" [] OTHER -> ":" \o Dashes(w - 2) \o ":"

TypeTable ==
    \E v \in Variants, sep \in Seps :
       LET esc == (v + 2 * nblocks) % 4 = 3                         \* escaped pipes inside cells (plain text and code span)
           canon == v % 4 = 1                                       \* laid out the way the Markdown renderer lays tables out
           outer == v % 2 = 0 \/ canon                              \* leading and trailing pipes
           aligns0 == At(<< <<"---", "---">>, <<":--", ":-:">>, <<"--:", "-">>, <<":---:", "---">> >>, v)
           w == WordAt(nblocks + 1)
           hdr == <<"h" \o w, "*em*">>
           dup == v % 7 = 5                                          \* the same row twice (and the same text in several cells)
           emptyfirst == v % 11 = 9                                  \* a row whose first cell is empty, spelled "|| b |"
           excess == FALSE     \* (GFM ignores cells beyond the number of columns; mistletoe keeps them and its own tests pin that
                               \*  behaviour - test_table_with_varying_column_counts - so the spelling is not typed)
           rows == IF emptyfirst THEN << <<"", "b">> >> ELSE IF dup THEN << <<"same", "same">>, <<"same", "same">> >> ELSE IF esc THEN << <<"x \\| y", "`p \\| q`">> >> ELSE IF v % 3 = 0 THEN << <<w, "two">> >>
                   ELSE IF v % 3 = 1 /\ ~canon THEN << <<w, "`co`">>, <<"short">> >> ELSE << <<"a " \o w, "b">>, <<"c", "d">> >>
           width(c) == Max2(3, MaxLen(<<hdr>> \o rows, c))
           kind(c) == AlignKind(aligns0[c])
           aligns == IF canon THEN [c \in 1..2 |-> DelimCell(width(c), kind(c))] ELSE aligns0
           Cells(cells) == IF canon THEN [c \in 1..2 |-> PadCell(cells[c], width(c), kind(c))] ELSE cells
           Line(cells) == IF emptyfirst /\ cells[1] = "" /\ ~canon THEN "|| " \o cells[2] \o " |"
                          ELSE IF outer THEN "| " \o Join(Cells(cells), " | ") \o " |" ELSE Join(cells, " | ")
           DLine == IF canon THEN "| " \o Join(aligns, " | ") \o " |" ELSE IF outer THEN "|" \o Join(aligns, "|") \o "|" ELSE Join(aligns, " | ")
           lines == <<Line(hdr), DLine>> \o [i \in DOMAIN rows |-> IF Len(rows[i]) = 1 /\ ~outer THEN rows[i][1] \o " |"
                                                               ELSE IF excess /\ i = Len(rows) /\ Len(rows[i]) = 2 THEN Line(rows[i]) \o (IF outer THEN " extra |" ELSE " | extra") ELSE Line(rows[i])]
           base == Len(src) + Len(SepLines(sep))
           tid == Len(nodes) + 1
           rowNodes(i) == <<Node("TableRow", tid, base + 2 + i, 0, NoText, "")>>
                          \o [c \in 1..2 |-> Node("TableCell", tid + 1 + 3 * (i - 1), base + 2 + i, 0, NoText, "")]
           allRows == IF Len(rows) = 1 THEN rowNodes(1) ELSE rowNodes(1) \o rowNodes(2) IN
       /\ (sep = "none") = (last.kind = "none")
       /\ Budget /\ FirstKindOk("table")
       /\ ~DefInItem
       /\ src' = src \o SepLines(sep) \o <<LineNow(lines[1])>> \o [i \in 1..(Len(lines) - 1) |-> LineRest(lines[i + 1])]
       /\ nodes' = Append(nodes, Node("Table", Parent, base + 1, 0, NoText, [aligns |-> aligns, hdr |-> hdr, rows |-> rows])) \o allRows
       /\ loose' = LooseAfter(sep)
       /\ open' = Started(open)
       /\ last' = [kind |-> "table", mtype |-> "", inner |-> "table"]
       /\ nblocks' = nblocks + 1
       /\ tags' = tags \cup (IF InItemFirstLine THEN {"table-on-marker-line"} ELSE {}) \cup NcSep(sep) \cup NcIf(~canon)
       /\ UNCHANGED <<defs, phase, target>>

(* HTML block: type 6 (<div>, ends at a blank line), type 1 (<pre>, ends at its end tag, may hold blank lines), type 2
   (comment).  May interrupt a paragraph; what follows needs a blank line (types 6) - typed after every kind for simplicity. *)
HtmlBodies == << <<"<div>", "*raw* text", "</div>">>, <<"<div class=\"x\">hi</div>">>, <<"<pre>", "a", "", "  b", "</pre>">>, <<"<!-- c", "", "d -->">>, <<"<table><tr><td>", "x", "</td></tr></table>">>,
                <<"<?php", "", "echo '>';", "?>">>, <<"<!DOCTYPE html>">>, <<"<![CDATA[", "a", "", "]]>">>, <<"<custom-tag a=\"b\">", "*text*", "</custom-tag>">> >>
TypeHtml ==
    \E sep \in Seps, v \in Variants :
       LET body == At(HtmlBodies, v) IN
       /\ (body[1] = "<custom-tag a=\"b\">" => ~(sep = "none" /\ last.inner = "para"))        \* start condition 7 cannot interrupt a paragraph
       /\ Leaf("html", "html", sep, Node("HtmlBlock", Parent, 0, 0, NoText, [body |-> body]), body, Depth)
       /\ tags' = tags \cup NcSep(sep) \cup NcIf(InQuote /\ \E i \in DOMAIN body : body[i] = "")
                       \cup (IF body[1] = "<custom-tag a=\"b\">" THEN LazyTag(sep) ELSE {})     \* (what the reader takes for lazy text: it cannot interrupt a paragraph)

(* link reference definition: no node, no output *)
Dests  == Pick({"/u1", "/u2"}, {"/u1", "/u2"}, {"/u1", "/u2", "<a b>"})
Titles == Pick({""}, {"", " \"t1\""}, {"", " \"t1\"", " 't2'", " (t3)"})
Href(d) == IF d = "<a b>" THEN "a%20b" ELSE d
TitleOf(t) == IF t = "" THEN "" ELSE SubSeq(t, 3, Len(t) - 1)

TypeDef ==
    \E sep \in Seps, v \in Variants :
       LET l == At(Pick(<<"foo", "FOO">>, <<"foo", "FOO", "foob">>, <<"foo", "FOO", "bar baz", "Bar  BAZ", "foob", "SS", "{SZ}", "bar{TAB}baz">>), v)
           d == At(Pick(<<"/u1", "/u2">>, <<"/u1", "/u2">>, <<"/u1", "/u2", "<a b>">>), v + nblocks)
           t == At(Pick(<<"">>, <<"", " \"t1\"">>, <<"", " \"t1\"", " 't2'", " (t3)">>), v \div 2) IN
       /\ Budget
       /\ FirstKindOk("def")
       /\ SepOk(sep, "def")
       /\ src' = src \o SepLines(sep) \o <<LineNow("[" \o l \o "]: " \o d \o (IF t # "" /\ Level = 2 /\ v % 3 = 2 THEN "{TAB}" \o SubSeq(t, 2, Len(t)) ELSE t))>>     \* (a tab may separate destination and title)
       /\ defs' = Append(defs, [label |-> l, href |-> Href(d), title |-> TitleOf(t), line |-> Len(src) + Len(SepLines(sep)) + 1])
       /\ loose' = LooseAfter(sep)
       /\ open' = Started(open)
       /\ last' = [kind |-> "def", mtype |-> "", inner |-> "def"]
       /\ nblocks' = nblocks + 1
       /\ tags' = tags \cup LazyTag(sep) \cup NcSep(sep) \cup NcIf(t # "" /\ Level = 2 /\ v % 3 = 2)       \* (the renderer separates the title by a space)
       /\ UNCHANGED <<nodes, phase, target>>

---------------------------------------------------------------------------
(* containers *)
(* a block quote may begin with a line that holds only the marker *)
OpenQuote ==
    \E sep \in Seps, bs \in BOOLEAN, bare \in Pick({FALSE}, BOOLEAN, BOOLEAN) :
       /\ phase = "typing" /\ Depth < MaxDepth /\ nblocks < MaxBlocks
       /\ FirstKindOk("quote")
       /\ SepOk(sep, "quote")
       /\ src' = IF bs THEN src \o SepLines(sep) \o <<LineNow(">")>> ELSE src \o SepLines(sep)
       /\ nodes' = Append(nodes, Node("Quote", Parent, Len(src) + Len(SepLines(sep)) + 1, 0, NoText, ""))
       /\ open' = Append(IF bs THEN Started(open) ELSE open,
                         [kind |-> "quote", node |-> Len(nodes) + 1, list |-> 0, first |-> "> ", rest |-> "> ", started |-> bs,
                          marker |-> ">", mtype |-> "", num |-> 0, indent |-> 0, pad |-> 1, bare |-> bare])
       /\ loose' = LooseAfter(sep)
       /\ last' = [kind |-> "none", mtype |-> "", inner |-> "none"]
       /\ nblocks' = IF bs THEN nblocks + 1 ELSE nblocks
       /\ tags' = tags \cup (IF bs THEN {"quote-begins-with-blank-line"} ELSE {}) \cup NcSep(sep) \cup NcIf(bare \/ bs)
       /\ UNCHANGED <<defs, phase, target>>

Bullets == {"-", "+", "*"}
MarkerSeq == Pick(<< [b |-> "-"], [n |-> 1, d |-> "."] >>,
                  << [b |-> "-"], [b |-> "*"], [n |-> 1, d |-> "."], [n |-> 7, d |-> "."] >>,
                  << [b |-> "-"], [b |-> "+"], [b |-> "*"], [n |-> 1, d |-> "."], [n |-> 7, d |-> ")"], [n |-> 10, d |-> "."], [n |-> 1, d |-> ")"],
                     [n |-> 0, d |-> "."], [n |-> 123456789, d |-> ")"] >>)
MarkerStr(m) == IF "b" \in DOMAIN m THEN m.b ELSE Digits(m.n) \o m.d
MarkerType(m) == IF "b" \in DOMAIN m THEN m.b ELSE m.d
SepKind(m) == IF "b" \in DOMAIN m THEN "blist" ELSE IF m.n = 1 THEN "olist1" ELSE "olist"

ItemFrame(listId, nodeId, m, indent, pad) ==
    LET f == Spaces(indent) \o MarkerStr(m) \o Spaces(pad) IN
    [kind |-> "item", node |-> nodeId, list |-> listId, first |-> f, rest |-> Spaces(Len(f)), started |-> FALSE,
     marker |-> SubSeq(MarkerStr(m), 1, 1), mtype |-> MarkerType(m), num |-> (IF "b" \in DOMAIN m THEN 0 ELSE m.n), indent |-> indent, pad |-> pad,
     bare |-> FALSE]

(* whitespace behind a marker that stands alone on its line (the item begins with a blank line): none, one space, or more than four *)
BsTrail(v) == IF Level = 2 THEN At(<<"", "     ", " ", "", "      ">>, v) ELSE ""

(* the item frames at the top of the stack whose marker line has not been written yet and whose marker is ch *)
PendingSame(ch) == {i \in DOMAIN open : open[i].kind = "item" /\ ~open[i].started /\ open[i].marker = ch /\ ch \in {"-", "*"}
                                          /\ \A j \in i..Len(open) : open[j].kind = "item" /\ ~open[j].started /\ open[j].marker = ch}

(* a list item may begin with (at most one) blank line: the marker stands alone on its line and the content offset is
   the marker width plus one; such an item cannot interrupt a paragraph *)
EmptyStartFrame(listId, nodeId, m, indent) ==
    [ItemFrame(listId, nodeId, m, indent, 1) EXCEPT !.started = TRUE]

OpenList ==
    \E sep \in Seps, v \in Variants, bs \in BOOLEAN :
      LET m == At(MarkerSeq, v)
          indent == At(Pick(<<0>>, <<0>>, <<0, 1, 2>>), v \div 3)
          pad == At(Pick(<<1>>, <<1, 2>>, <<1, 2, 3>>), v \div 2)
          (* the marker's padding spelled as one tab: it reaches the next tab stop counted from the beginning of the line, 1-4 columns *)
          tabpad == Level = 2 /\ v % 5 = 4 /\ ~bs /\ AllStarted
          tabw == 4 - ((Len(PrefixRest(open)) + indent + Len(MarkerStr(m))) % 4)
          sl == SepLines(sep) IN
       /\ phase = "typing" /\ Depth < MaxDepth /\ nblocks < MaxBlocks
       /\ FirstKindOk("list")
       /\ SepOk(sep, IF bs THEN "elist" ELSE SepKind(m))
       /\ IndOk(indent)
       /\ ~(last.kind = "list" /\ last.mtype = MarkerType(m))          \* two adjacent lists of one type are one list
       /\ ~(bs /\ Cardinality(PendingSame(MarkerStr(m))) >= 2)                   \* "- - -" on one line is a thematic break
       /\ src' = IF bs THEN src \o sl \o <<LineNow(Spaces(indent) \o MarkerStr(m) \o BsTrail(v))>> ELSE src \o sl      \* (the marker may be followed by spaces)
       /\ nodes' = nodes \o <<Node("List", Parent, Len(src) + Len(sl) + 1, 0, NoText, [start |-> (IF "b" \in DOMAIN m THEN 0 ELSE m.n), ordered |-> ~("b" \in DOMAIN m)]),
                              Node("ListItem", Len(nodes) + 1, Len(src) + Len(sl) + 1, 0, NoText, "")>>
       /\ open' = IF bs THEN Append(Started(open), EmptyStartFrame(Len(nodes) + 1, Len(nodes) + 2, m, indent))
                        ELSE IF tabpad THEN Append(open, [ItemFrame(Len(nodes) + 1, Len(nodes) + 2, m, indent, tabw) EXCEPT
                                                             !.first = Spaces(indent) \o MarkerStr(m) \o "{TAB}"])
                        ELSE Append(open, ItemFrame(Len(nodes) + 1, Len(nodes) + 2, m, indent, pad))
       /\ loose' = LooseAfter(sep)
       /\ last' = [kind |-> "none", mtype |-> "", inner |-> "none"]
       /\ tags' = tags \cup (IF bs THEN {"item-begins-with-blank-line"} ELSE {}) \cup NcSep(sep) \cup NcIf(bs \/ tabpad)
                       \cup (IF SepKind(m) = "olist" THEN LazyTag(sep) ELSE {})
                       (* recorded finding: nested readers see the line without the enclosing containers' prefixes and count tab
                          stops from there; that agrees with the true columns only when the prefixes are a multiple of four wide *)
                       \cup (IF tabpad /\ \E i \in 2..(Depth + 1) : Len(PrefixRest(SubSeq(open, 1, i - 1))) % 4 # 0 THEN {"tab-stop-relative-to-container"} ELSE {})      \* cannot interrupt a paragraph, so it is what the reader takes for lazy text
       /\ nblocks' = IF bs THEN nblocks + 1 ELSE nblocks       \* an item that may stay empty counts against the budget
       /\ UNCHANGED <<defs, phase, target>>

(* the next item of the innermost list: same type of marker, numbers count upwards; a blank line makes the list loose *)
NextItem ==
    \E sep \in Seps, pad \in Pick({1}, {1}, {1, 3}), bs \in BOOLEAN :
       /\ phase = "typing" /\ open # << >> /\ Top.kind = "item" /\ Top.started /\ nblocks < MaxBlocks
       /\ (sep = "none" /\ bs => last.kind # "para")                    \* a lone "-" under paragraph text is a setext underline
       /\ LET m == IF Top.num = 0 /\ Top.marker \in Bullets THEN [b |-> Top.marker] ELSE [n |-> Top.num + 1, d |-> Top.mtype]
              outer == SubSeq(open, 1, Len(open) - 1)
              sl == IF IsBlank(sep) THEN <<BlankOf(outer, sep)>> ELSE << >> IN
          /\ src' = IF bs THEN src \o sl \o <<Assemble(outer, "rest", 0, Spaces(Top.indent) \o MarkerStr(m) \o BsTrail(pad + nblocks))>> ELSE src \o sl
          /\ nodes' = Append(nodes, Node("ListItem", Top.list, Len(src) + Len(sl) + 1, 0, NoText, ""))
          /\ open' = IF bs THEN Append(outer, EmptyStartFrame(Top.list, Len(nodes) + 1, m, Top.indent))
                           ELSE Append(outer, ItemFrame(Top.list, Len(nodes) + 1, m, Top.indent, pad))
          /\ loose' = IF IsBlank(sep) THEN loose \cup {Top.list} ELSE loose
       /\ last' = [kind |-> "none", mtype |-> "", inner |-> "none"]
       /\ tags' = tags \cup (IF bs THEN {"item-begins-with-blank-line"} ELSE {}) \cup NcSep(sep) \cup NcIf(bs)
       /\ nblocks' = IF bs THEN nblocks + 1 ELSE nblocks
       /\ UNCHANGED <<defs, phase, target>>

Close ==
    /\ phase = "typing" /\ open # << >> /\ Top.started
    /\ open' = SubSeq(open, 1, Len(open) - 1)
    /\ last' = [kind |-> (IF Top.kind = "quote" THEN "quote" ELSE "list"), mtype |-> Top.mtype,
                 inner |-> (IF last.kind \in {"quote", "list"} THEN last.inner ELSE last.kind)]     \* the innermost last block
    /\ UNCHANGED <<src, nodes, loose, defs, nblocks, phase, target>>

Finish ==
    /\ phase = "typing" /\ AllStarted /\ nblocks >= target
    /\ phase' = "done"
    /\ UNCHANGED <<src, open, nodes, loose, defs, last, nblocks, target>>

Init ==
    /\ src \in Pick({<< >>}, {<< >>, <<"">>}, {<< >>, <<"">>, <<"", "  ">>})       \* a document may begin with blank lines
    /\ open = << >> /\ nodes = <<Node("Document", 0, 1, 0, NoText, "")>> /\ loose = {} /\ defs = << >>
    /\ last = [kind |-> "none", mtype |-> "", inner |-> "none"] /\ nblocks = 0 /\ phase = "typing" /\ tags = NcIf(\E i \in DOMAIN src : src[i] # "")     \* (the renderer writes a blank line empty)
    /\ target \in (IF Rich THEN 2..MaxBlocks ELSE {1})

Next == TypePara \/ TypeAtx \/ TypeSetext \/ TypeHr \/ TypeFence \/ TypeIndented \/ TypeDef \/ TypeTable \/ TypeHtml
        \/ OpenQuote \/ OpenList \/ NextItem \/ (Close /\ UNCHANGED tags) \/ (Finish /\ UNCHANGED tags)

---------------------------------------------------------------------------
(* the HTML of the intended tree *)
Kids(n) == LET S == {i \in DOMAIN nodes : nodes[i].p = n} IN
           [k \in 1..Cardinality(S) |-> CHOOSE i \in S : Cardinality({j \in S : j < i}) = k - 1]

CodeHtml(x) == "<pre><code" \o (IF x.info = "" THEN "" ELSE " class=\"language-" \o x.info \o "\"") \o ">"
               \o Join(x.body, "\n") \o (IF x.body = << >> THEN "" ELSE "\n") \o "</code></pre>"

(* cell text: words, *em*, `co`, and the two cells with an escaped pipe (the backslash is dropped, also inside a code span) *)
CellHtml(c) == IF c = "*em*" THEN "<em>em</em>" ELSE IF c = "`co`" THEN "<code>co</code>"
               ELSE IF c = "x \\| y" THEN "x | y" ELSE IF c = "`p \\| q`" THEN "<code>p | q</code>" ELSE c
AlignOf(a) == IF SubSeq(a, 1, 1) = ":" /\ SubSeq(a, Len(a), Len(a)) = ":" THEN "center"
              ELSE IF SubSeq(a, Len(a), Len(a)) = ":" THEN "right" ELSE "left"      \* the renderer writes align="left" when none is given
RowHtml(cells, aligns, tag) ==
    "<tr>\n" \o Join([i \in DOMAIN aligns |-> "<" \o tag \o " align=\"" \o AlignOf(aligns[i]) \o "\">"
                                              \o (IF i <= Len(cells) THEN CellHtml(cells[i]) ELSE "") \o "</" \o tag \o ">"], "\n") \o "\n</tr>"
TableHtml(x) == "<table>\n<thead>\n" \o RowHtml(x.hdr, x.aligns, "th") \o "\n</thead>\n<tbody>\n"
                \o Join([i \in DOMAIN x.rows |-> RowHtml(x.rows[i], x.aligns, "td")], "\n") \o "\n</tbody>\n</table>"

RECURSIVE HtmlOf(_, _)
HtmlOf(n, tight) ==
    LET nd == nodes[n]
        inner(t) == Join([k \in DOMAIN Kids(n) |-> HtmlOf(Kids(n)[k], t)], "\n") IN
    CASE nd.t = "Document"      -> inner(FALSE)
      [] nd.t = "Paragraph"     -> IF tight THEN TextHtml(nd.tx, defs) ELSE "<p>" \o TextHtml(nd.tx, defs) \o "</p>"
      [] nd.t \in {"Heading", "SetextHeading"} -> "<h" \o Digits(nd.lv) \o ">" \o TextHtml(nd.tx, defs) \o "</h" \o Digits(nd.lv) \o ">"
      [] nd.t = "ThematicBreak" -> "<hr />"
      [] nd.t \in {"CodeFence", "BlockCode"} -> CodeHtml(nd.x)
      [] nd.t = "HtmlBlock"     -> Join(nd.x.body, "\n")
      [] nd.t = "Table"         -> TableHtml(nd.x)
      [] nd.t = "Quote"         -> "<blockquote>\n" \o inner(FALSE) \o "\n</blockquote>"
      [] nd.t = "List"          -> LET tag == IF nd.x.ordered THEN "ol" ELSE "ul"
                                       st == IF nd.x.ordered /\ nd.x.start # 1 THEN " start=\"" \o Digits(nd.x.start) \o "\"" ELSE "" IN
                                   "<" \o tag \o st \o ">\n" \o inner(n \notin loose) \o "\n</" \o tag \o ">"
      [] nd.t = "ListItem"      -> "<li>" \o inner(tight) \o "</li>"

Html == HtmlOf(1, FALSE)

(* block line numbers in document order (pre-order) *)
RECURSIVE Pre(_)
Pre(n) == <<n>> \o (LET ks == Kids(n) IN
                    LET RECURSIVE Cat(_)
                        Cat(i) == IF i > Len(ks) THEN << >> ELSE Pre(ks[i]) \o Cat(i + 1)
                    IN Cat(1))
Lines == LET o == Pre(1) IN [i \in DOMAIN o |-> [t |-> nodes[o[i]].t, ln |-> nodes[o[i]].ln]]

Footnotes == [i \in DOMAIN defs |-> [base |-> Base(defs[i].label), href |-> defs[i].href, title |-> defs[i].title, first |-> Resolve(defs, defs[i].label) = i]]

---------------------------------------------------------------------------
(* invariants of the typing model itself *)
TypeOK ==
    /\ \A i \in DOMAIN nodes : nodes[i].p < i
    /\ \A i \in DOMAIN open : open[i].node \in DOMAIN nodes
    /\ Depth <= MaxDepth

(* every block starts on a line that has been typed, and siblings start on increasing lines *)
LinesOrdered == \A i, j \in DOMAIN nodes : (i < j /\ nodes[i].p = nodes[j].p) =>
                    (nodes[i].ln < nodes[j].ln \/ (nodes[i].t = "TableCell" /\ nodes[i].ln = nodes[j].ln))
LinesTyped   == \A i \in DOMAIN nodes : i = 1 \/ (nodes[i].ln >= 1 /\ (nodes[i].ln <= Len(src) \/ ~AllStarted))

(* the resolution table equals "first occurrence per base" *)
FirstWins == \A i \in DOMAIN defs : \A j \in DOMAIN defs : (j < i /\ Base(defs[j].label) = Base(defs[i].label)) => Resolve(defs, defs[i].label) # i

(* a word that would start a block if a reflow put it at the beginning of a line (an HTML block of kinds 2-4 may interrupt a
   paragraph): the class C10 sets aside *)
RECURSIVE HasSubStr(_, _)
HasSubStr(t, p) == Len(t) >= Len(p) /\ (SubSeq(t, 1, Len(p)) = p \/ HasSubStr(SubSeq(t, 2, Len(t)), p))
StartWordTag == IF \E i \in DOMAIN src : HasSubStr(src[i], "<!---->") \/ HasSubStr(src[i], "<??>") \/ HasSubStr(src[i], "<!a b>")
                THEN {"word-that-starts-a-block"} ELSE {}
Export == phase = "done" =>
    PrintT(ToJson([src |-> Join(src, "\n") \o "\n", html |-> Html, lines |-> Lines, defs |-> Footnotes, tags |-> tags \cup StartWordTag, nblocks |-> nblocks]))
=============================================================================
