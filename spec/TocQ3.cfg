CONSTANTS
  MaxHeadings = 4
  MaxLevel = 3
  VariantSet = {1, 7, 8}
INIT Init
NEXT Next
INVARIANT IndentNestingIsLevelNesting
INVARIANT Export
CHECK_DEADLOCK FALSE
