CONSTANTS
  MaxBlocks = 2
  MaxDepth = 2
  Level = 0
  EnabledKinds = {"para", "atx", "setext", "hr", "fence", "code", "def", "quote", "list", "table", "html"}
INIT Init
NEXT Next
INVARIANT TypeOK
INVARIANT LinesOrdered
INVARIANT FirstWins
INVARIANT Export
CHECK_DEADLOCK FALSE
