--------------------------- MODULE EmphasisBatch ---------------------------
(* The delimiter algorithm of Emphasis.tla run on class strings submitted  *)
(* by the harness (random strings over a wide alphabet, mapped to classes  *)
(* by the CommonMark 0.30 class table).  One initial state per record.     *)
EXTENDS Emphasis
Recs == ndJsonDeserialize(IOEnv.TRACE_FILE)
VARIABLE tid
BInit ==
    /\ tid \in 1..Len(Recs)
    /\ input = Recs[tid].cls
    /\ stack = Runs(input) /\ cur = 1 /\ matches = {} /\ phase = "run"
BNext == Step /\ UNCHANGED tid
BExport == phase = "done" => PrintT(ToJson([tid |-> tid, out |-> Out(input, matches, 1)]))
=============================================================================
