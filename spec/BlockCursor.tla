----------------------------- MODULE BlockCursor -----------------------------
(***************************************************************************)
(* The block phase as the readers see it (mechanism behind C01, C05, C13). *)
(*                                                                         *)
(* tokenize_block runs a dispatch loop over a line cursor (FileWrapper):   *)
(* while a line can be peeked, the token types are asked in order whether  *)
(* the line starts them; the first whose read() returns a result consumed  *)
(* at least that line; a reader that returns None must have restored the   *)
(* cursor; if none matched the line is consumed as a blank line.           *)
(* Container readers collect the lines of their content, strip their own   *)
(* prefix and start a nested dispatch loop on them, handing over the line  *)
(* number of their first line (start_line).                                *)
(*                                                                         *)
(* Part 1 - design level.  A cursor machine with nondeterministic readers  *)
(* that obey the protocol (Consume k >= 1 lines, or Refuse and restore);   *)
(* TLC checks Progress (the rank nlines - pos decreases with every         *)
(* dispatch iteration, so the loop terminates) and that a refusing reader  *)
(* that does not restore the cursor (MisbehavingRefuse) is exactly what    *)
(* breaks it.                                                              *)
(*                                                                         *)
(* Part 2 - trace acceptor.  A pass-through block token registered at      *)
(* position 0 (start() always true, read() records the cursor and returns  *)
(* None) observes every dispatch iteration of every (nested) loop of a     *)
(* real parse.  An observation is [w, start, pos, n, tail]: wrapper        *)
(* ordinal, its start_line, the 1-based position of the peeked line, the   *)
(* number of lines of the wrapper, and whether the peeked line is a        *)
(* (whitespace-insensitive) tail of source line start + pos - 1.           *)
(*   Progress   within one wrapper the positions strictly increase         *)
(*   Bounds     1 <= pos <= n                                              *)
(*   LineMap    tail = "yes": start_line + cursor really names the source  *)
(*              line the nested line was cut from (what block tokens       *)
(*              report as line_number)                                     *)
(***************************************************************************)
EXTENDS Naturals, Sequences, FiniteSets, TLC, Json, IOUtils

CONSTANTS NLines, Misbehave

VARIABLES pos, iter, lastPos
vars == <<pos, iter, lastPos>>

Init == pos = 0 /\ iter = 0 /\ lastPos = 0
(* one dispatch iteration: some reader consumes k >= 1 lines, or every reader refuses (restoring the cursor) and the loop
   itself consumes the line *)
Consume(k) == pos < NLines /\ k \in 1..(NLines - pos) /\ pos' = pos + k /\ iter' = iter + 1 /\ lastPos' = pos
AllRefuse  == pos < NLines /\ pos' = pos + 1 /\ iter' = iter + 1 /\ lastPos' = pos
(* a reader that returns None after advancing and without restoring: the next reader starts from the wrong line; if it also
   steps back over the start (backstep past the floor) the loop may never end *)
MisbehavingRefuse == Misbehave /\ pos < NLines /\ pos > 0 /\ pos' = pos - 1 /\ iter' = iter + 1 /\ lastPos' = pos
Next == (\E k \in 1..NLines : Consume(k)) \/ AllRefuse \/ MisbehavingRefuse

Progress == iter = 0 \/ pos > lastPos
Terminates == iter <= NLines

---------------------------------------------------------------------------
RECURSIVE AcceptFrom(_, _, _)
AcceptFrom(obs, i, last) ==
    IF i > Len(obs) THEN "ok"
    ELSE LET o == obs[i] IN
         IF o.pos < 1 \/ o.pos > o.n THEN "Cursor.bounds"
         ELSE IF o.w \in DOMAIN last /\ last[o.w] >= o.pos THEN "Cursor.no-progress"
         ELSE IF o.tail # "yes" THEN "Cursor.line-map"
         ELSE AcceptFrom(obs, i + 1, [x \in (DOMAIN last) \cup {o.w} |-> IF x = o.w THEN o.pos ELSE last[x]])

(* token anchors (C13 on arbitrary inputs): a characteristic piece of every block token's first line must be found on the
   source line the token reports *)
AnchorLaw(r) == IF \E i \in DOMAIN r.tokens : r.tokens[i].found # "yes"
                THEN "LineNumber." \o (CHOOSE t \in {r.tokens[i].t : i \in {j \in DOMAIN r.tokens : r.tokens[j].found # "yes"}} : TRUE)
                ELSE "ok"

Judge(r) == CASE r.law = "cursor" -> AcceptFrom(r.obs, 1, << >>)
              [] r.law = "anchors" -> AnchorLaw(r)
              [] OTHER -> "unknown-law"
=============================================================================
