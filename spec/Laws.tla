------------------------------- MODULE Laws -------------------------------
(***************************************************************************)
(* Relational laws over recorded observations of the implementation.      *)
(*                                                                         *)
(* A record is produced by the harness from real executions; it contains  *)
(* projections only (nested token records, strings), never a verdict.     *)
(* Each law below is the statement of one property (or one clause of it)  *)
(* over such a record; TLC evaluates it for every record of a trace.      *)
(*                                                                         *)
(* Token projection:  [t |-> class name, a |-> attribute string,           *)
(*                     l |-> line number (0 = none / set aside),           *)
(*                     c |-> sequence of child projections]                *)
(***************************************************************************)
EXTENDS Naturals, Sequences, TLC

RECURSIVE Shift(_, _)
(* add k to every recorded line number of a token projection *)
Shift(n, k) ==
    [t |-> n.t, a |-> n.a,
     l |-> IF n.l = 0 THEN 0 ELSE n.l + k,
     c |-> [i \in DOMAIN n.c |-> Shift(n.c[i], k)]]

ShiftAll(ns, k) == [i \in DOMAIN ns |-> Shift(ns[i], k)]

RECURSIVE ConcatStr(_)
ConcatStr(ss) == IF ss = <<>> THEN "" ELSE Head(ss) \o ConcatStr(Tail(ss))

---------------------------------------------------------------------------
(* C05: A, blank line, B parse to A's blocks followed by B's blocks,       *)
(* B's line numbers shifted by the number of lines that precede B.         *)
ConcatLaw(r) ==
    IF Len(r.ab) # Len(r.a) + Len(r.b) THEN "Concat.block-count"
    ELSE IF SubSeq(r.ab, 1, Len(r.a)) # r.a THEN "Concat.A-changed"
    ELSE IF SubSeq(r.ab, Len(r.a) + 1, Len(r.ab)) # ShiftAll(r.b, r.nA + 1)
         THEN "Concat.B-changed-or-lines"
    ELSE IF r.defsAB # <<>> THEN "Concat.definitions"
    ELSE "ok"

(* the same law with line numbers set aside: distinguishes a structural   *)
(* change from a wrong line number in the verdict                          *)
RECURSIVE NoLines(_)
NoLines(n) == [t |-> n.t, a |-> n.a, l |-> 0, c |-> [i \in DOMAIN n.c |-> NoLines(n.c[i])]]
NoLinesAll(ns) == [i \in DOMAIN ns |-> NoLines(ns[i])]

ConcatLawNamed(r) ==
    LET v == ConcatLaw(r) IN
    IF v = "Concat.B-changed-or-lines"
    THEN IF NoLinesAll(SubSeq(r.ab, Len(r.a) + 1, Len(r.ab))) = NoLinesAll(r.b)
         THEN "Concat.B-line-numbers" ELSE "Concat.B-changed"
    ELSE v

---------------------------------------------------------------------------
(* C04: quoting a document wraps its parse in exactly one block quote;     *)
(* list-indenting it wraps it in exactly one single-item list.             *)
(* Line numbers are set aside by the projection (all l = 0).               *)
QuoteLaw(r) ==
    IF Len(r.emb) # 1 THEN "Quote.not-one-block"
    ELSE IF r.emb[1].t # "Quote" THEN "Quote.not-a-quote"
    ELSE IF r.emb[1].c # r.base THEN "Quote.content-differs"
    ELSE IF r.embDefs # r.baseDefs THEN "Quote.definitions-differ"
    ELSE "ok"

ListLaw(r) ==
    IF Len(r.emb) # 1 THEN "List.not-one-block"
    ELSE IF r.emb[1].t # "List" THEN "List.not-a-list"
    ELSE IF Len(r.emb[1].c) # 1 THEN "List.not-one-item"
    ELSE IF r.emb[1].c[1].t # "ListItem" THEN "List.not-an-item"
    ELSE IF r.emb[1].c[1].c # r.base THEN "List.content-differs"
    ELSE IF r.embDefs # r.baseDefs THEN "List.definitions-differ"
    ELSE IF r.emb[1].a # r.listAttr /\ r.emb[1].a # r.listAttrLoose THEN "List.start-or-kind"
    ELSE "ok"

---------------------------------------------------------------------------
(* C09: Markdown round trip.  x = input, y = render(parse(x)),             *)
(* z = render(parse(y)).                                                   *)
RoundTripLaw(r) ==
    IF r.htmlX # r.htmlY THEN "RoundTrip.meaning"
    ELSE IF r.defsX # r.defsY THEN "RoundTrip.definitions"
    ELSE IF r.z # r.y THEN "RoundTrip.idempotence"
    ELSE IF r.normal = "yes" /\ r.y # r.x THEN "RoundTrip.normal-form"
    ELSE "ok"

---------------------------------------------------------------------------
(* C15: every way of supplying a text gives the same output; the CLI on    *)
(* several files writes the concatenation of the single-file outputs.      *)
FormsLaw(r) ==
    IF \E i \in DOMAIN r.outs : r.outs[i].out # r.outs[1].out
    THEN "Forms." \o (CHOOSE n \in {r.outs[i].form : i \in {j \in DOMAIN r.outs : r.outs[j].out # r.outs[1].out}} : TRUE)
    ELSE "ok"

CliLaw(r) == IF r.multi = ConcatStr(r.singles) THEN "ok" ELSE "Cli.concatenation"

---------------------------------------------------------------------------
(* C18: an HTML-based contrib renderer gives the HTML renderer's output    *)
(* (plus the fixed suffix of MathJax) when its extension is not used.      *)
(* Strings travel in the ASCII image of harness/proj.py:asc, in which a    *)
(* line end is the two characters backslash, n.                            *)
IsScriptLine(s) ==
    /\ Len(s) >= 20
    /\ SubSeq(s, 1, 8) = "<script "
    /\ SubSeq(s, Len(s) - 10, Len(s)) = "</script>\\n"

ConservativeLaw(r) ==
    IF r.renderer = "MathJaxRenderer"
    THEN IF /\ Len(r.outR) > Len(r.outHtml)
            /\ SubSeq(r.outR, 1, Len(r.outHtml)) = r.outHtml
            /\ IsScriptLine(SubSeq(r.outR, Len(r.outHtml) + 1, Len(r.outR)))
         THEN "ok" ELSE "Conservative.MathJaxRenderer"
    ELSE IF r.outR = r.outHtml THEN "ok" ELSE "Conservative." \o r.renderer

---------------------------------------------------------------------------
(* C10 (document level): reflowing with limit L.                           *)
(*   meaning:      whitespace-normalised HTML identical                    *)
(*   idempotence:  reflowing the output again changes nothing              *)
(*   bound:        a line longer than L has no breakable space after its   *)
(*                 container prefix (the harness reports, for each output  *)
(*                 line, its length and the number of breakable spaces the *)
(*                 spec-side word table finds after the prefix)            *)
(*   protected:    protected blocks' lines are reproduced                  *)
ReflowLaw(r) ==
    IF r.htmlX # r.htmlY THEN "Reflow.meaning"
    ELSE IF r.wordsOk # "yes" THEN "Reflow.words"
    ELSE IF r.z # r.y THEN "Reflow.idempotence"
    ELSE IF \E i \in DOMAIN r.lines : r.lines[i].len > r.L /\ r.lines[i].breakable > 0 THEN "Reflow.bound"
    ELSE IF r.protectedIn # r.protectedOut THEN "Reflow.protected"
    ELSE "ok"

Judge(r) ==
    CASE r.law = "concat"       -> ConcatLawNamed(r)
      [] r.law = "quote"        -> QuoteLaw(r)
      [] r.law = "list"         -> ListLaw(r)
      [] r.law = "roundtrip"    -> RoundTripLaw(r)
      [] r.law = "forms"        -> FormsLaw(r)
      [] r.law = "cli"          -> CliLaw(r)
      [] r.law = "conservative" -> ConservativeLaw(r)
      [] r.law = "reflow"       -> ReflowLaw(r)
      [] OTHER                  -> "unknown-law"
=============================================================================
