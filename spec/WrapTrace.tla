------------------------------ MODULE WrapTrace ------------------------------
(* C10, code -> spec at the level of the line filler: layouts produced by  *)
(* the real MarkdownRenderer.fragments_to_lines are judged against the     *)
(* property-tier clauses of Wrap.tla.                                      *)
EXTENDS Naturals, Sequences, TLC, Json, IOUtils

RECURSIVE FlattenLines(_)
FlattenLines(ls) == IF ls = << >> THEN << >> ELSE Head(ls) \o FlattenLines(Tail(ls))
RECURSIVE SumLen(_, _, _)
SumLen(items, line, k) == IF k = 0 THEN 0 ELSE items[line[k]].len + SumLen(items, line, k - 1)
LineLen(items, line) == IF line = << >> THEN 0 ELSE (Len(line) - 1) + SumLen(items, line, Len(line))

Judge(r) ==
    IF FlattenLines(r.lines) # [i \in 1..Len(r.items) |-> i] THEN "Filler.words-preserved"
    ELSE IF \E k \in DOMAIN r.lines : \E j \in DOMAIN r.lines[k] : r.items[r.lines[k][j]].hard /\ j # Len(r.lines[k]) THEN "Filler.hard-break-kept"
    ELSE IF \E k \in DOMAIN r.lines : Len(r.lines[k]) >= 2 /\ LineLen(r.items, r.lines[k]) > r.budget THEN "Filler.bound"
    ELSE IF \E k \in DOMAIN r.lines : r.lines[k] = << >> THEN "Filler.empty-line"
    ELSE "ok"

Recs == ndJsonDeserialize(IOEnv.TRACE_FILE)
VARIABLES tid, verdict
Init == tid \in 1..Len(Recs) /\ verdict = Judge(Recs[tid])
Next == UNCHANGED <<tid, verdict>>
Report == verdict = "ok" \/ PrintT(ToJson([tid |-> tid, verdict |-> verdict]))
=============================================================================
