CONSTANTS
  Alphabet = {"a", " ", "*", "_", "[", "]"}
  MaxLen = 7
INIT Init
NEXT Next
INVARIANT TypeOK
INVARIANT LinksDisjoint
INVARIANT NoStraddle
INVARIANT Export
CHECK_DEADLOCK FALSE
