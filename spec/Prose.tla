------------------------------- MODULE Prose -------------------------------
(***************************************************************************)
(* C14: ordinary prose passes through unchanged.                           *)
(*                                                                         *)
(* A paragraph is typed lexeme by lexeme: 1-4 lines, lexemes separated by  *)
(* single spaces, no leading or trailing space on a line.  The vocabulary  *)
(* holds words and "tricky but inert" lexemes: intraword underscores,      *)
(* isolated * - + # > = | ~ ^ $ % @, unpaired brackets, & that starts no   *)
(* character reference, digits, dots and parentheses that form no list     *)
(* marker, lone backticks and backslashes.                                 *)
(*                                                                         *)
(* Inertness is conservative and spec-derived: a lexeme may be typed at a  *)
(* position only if CommonMark gives it no meaning there whatever the      *)
(* other lexemes are.  The guards:                                         *)
(*   StartBad   may not begin a line (block starts: list markers, ATX,     *)
(*              [ordered markers other than 1 only on the first line]      *)
(*              quote, setext underline / thematic break characters, HTML  *)
(*              block openers, table delimiter cells)                      *)
(*   EndBad     may not end a line (backslash: hard break)                 *)
(*   Tick       contains a backtick: at most one per paragraph (two could  *)
(*              delimit a code span)                                       *)
(*   Star       contains a * that touches a non-space character (an        *)
(*              intraword or attached run can open or close emphasis): at  *)
(*              most one per paragraph                                     *)
(*   Pipe       a line holding "|" also holds a plain word (so that it     *)
(*              cannot be the delimiter row of a table)                    *)
(*   Underline  a line does not consist of "=" lexemes only (that would be *)
(*              a setext underline); "= 3 + 4" is inert                    *)
(* Expected output: one <p> holding exactly the typed text, HTML-escaped.  *)
(***************************************************************************)
EXTENDS Naturals, Sequences, FiniteSets, TLC, Json

CONSTANTS MaxLines, MaxPerLine, MaxLexemes, Pool

(* text, StartBad, EndBad, Tick, Star, Pipe, Word *)
L(t, sb, eb, tk, st, pp, wd) == [t |-> t, sb |-> sb, eb |-> eb, tk |-> tk, st |-> st, pp |-> pp, wd |-> wd, fl |-> FALSE]
Wd(t)  == L(t, FALSE, FALSE, FALSE, FALSE, FALSE, TRUE)      \* a plain word
In(t)  == L(t, FALSE, FALSE, FALSE, FALSE, FALSE, FALSE)     \* inert anywhere
Sb(t)  == L(t, TRUE, FALSE, FALSE, FALSE, FALSE, FALSE)      \* inert except at the start of a line
Sf(t)  == [Sb(t) EXCEPT !.fl = TRUE]                          \* inert except at the start of the FIRST line: an ordered list marker whose
                                                              \* number is not 1 cannot interrupt a paragraph (CommonMark 5.2)

Vocab == <<
    Wd("word"), Wd("Hello"), Wd("x"), Wd("naive"), Wd("42"), Wd("3.14"), Wd("e.g."), Wd("etc."), Wd("a.b"), Wd("www.example.com"),
    Wd("1990s"), Wd("snake_case"), Wd("a_b_c"), Wd("file_name.txt"), Wd("don't"), Wd("\"quoted\""), Wd("semi;colon"), Wd("co:lon"),
    Wd("comma,"), Wd("what?"), Wd("wow!"), Wd("(paren)"), Wd("1.5"), Wd("v2.0.1"), Wd("100%"), Wd("user@example.com"), Wd("a/b"),
    Wd("C:\\dir"), Wd("x=y"), Wd("a+b"), Wd("key=value"), Wd("AT&T"), Wd("R&D"), Wd("&copy"), Wd("a&b"), Wd("&ampere;"), Wd("&notit;"), Wd("&xyz;"), Wd("x&y;z"), Wd("x^2"), Wd("$5"), Wd("$x$"),
    Wd("#hashtag"), Wd("C#"), Wd("a#b"), Wd("it's"), Wd("{braces}"), Wd("semi-colon"), Wd("well-known"), Wd("a--b"), Wd("x>y"), Wd("->"),
    Sb("-"), Sb("+"), Sb("#"), Sb("##"), Sb(">"), Sb(">>"), In("="), In("=="), Sb("--"), Sb("1."), Sf("2."), Sb("1)"), Sf("10."), Sf("007."), Sf("100)"), Sf("12."),
    Sb("<"), Sb("<3"), Sb("<="), Sb("<-"), Sb("<>"), Sb("(1)"), Sb("(a)"),
    In("."), In(")"),
    In("~"), In("^"), In("$"), In("%"), In("@"), In("&"), In("&&"), In(":"), In(";"), In("!"), In("?"), In(","), In("("), In("/"),
    In("["), In("]"), In("[x"), In("x]"), In("[1]"), In("a[1]"), In("]["), In("(x"), In("x)"), In("!["), In("!x"), In("[]"), In("()"),
    In("=>"), Sb(">="), In("=)"), In(":)"), Sf("3)"), In("2.5)"),
    L("|", TRUE, FALSE, FALSE, FALSE, TRUE, FALSE), L("a|b", FALSE, FALSE, FALSE, FALSE, TRUE, FALSE), L("||", TRUE, FALSE, FALSE, FALSE, TRUE, FALSE),
    L("`", FALSE, FALSE, TRUE, FALSE, FALSE, FALSE), L("``", FALSE, FALSE, TRUE, FALSE, FALSE, FALSE), L("a`b", FALSE, FALSE, TRUE, FALSE, FALSE, FALSE),
    L("*", TRUE, FALSE, FALSE, FALSE, FALSE, FALSE), L("2*3", FALSE, FALSE, FALSE, TRUE, FALSE, FALSE), L("a*b", FALSE, FALSE, FALSE, TRUE, FALSE, FALSE),
    In("**"), In("__"), L("f(*x)", FALSE, FALSE, FALSE, TRUE, FALSE, FALSE),       \* two delimiter characters between spaces: flanking nothing, and too few for a thematic break
    (* underscores: runs inside a word can neither open nor close; a run at the start of a word could open (so at most one such lexeme,
       counted with the attached stars), and there is nothing in the vocabulary that could close it *)
    In("=-="), In("-="), In("=-"),           \* no setext underline (mixed characters), no list marker (no space), no thematic break
    In("some__thing"), In("my__double__underscore"), In("a__b"),
    L("__foo__bar", FALSE, FALSE, FALSE, TRUE, FALSE, FALSE), L("__init__py", FALSE, FALSE, FALSE, TRUE, FALSE, FALSE), L("_private", FALSE, FALSE, FALSE, TRUE, FALSE, FALSE),
    L("\\", FALSE, TRUE, FALSE, FALSE, FALSE, FALSE), L("a\\", FALSE, TRUE, FALSE, FALSE, FALSE, FALSE), In("\\a"), In("\\n")
>>

N == IF MaxLexemes = 0 THEN Len(Vocab) ELSE MaxLexemes
(* Pool = "markers": three words and every lexeme that is guarded at a line start (deeper bounds on the block-start guards) *)
Lex == IF Pool = "markers" THEN {i \in 1..Len(Vocab) : i <= 3 \/ Vocab[i].sb} ELSE 1..N

VARIABLES lines, cur, ticks, stars, phase
vars == <<lines, cur, ticks, stars, phase>>

(* lexemes made of "=" only: a line made of nothing else would be a setext underline; followed by other text it is inert *)
UnderlineLike == {"=", "=="}
(* a line made of three or more "*" (or "_") and spaces only is a thematic break *)
OnlyChar(t, c) == \A i \in 1..Len(t) : SubSeq(t, i, i) = c
RECURSIVE SumLen(_, _)
SumLen(ln, k) == IF k > Len(ln) THEN 0 ELSE Len(Vocab[ln[k]].t) + SumLen(ln, k + 1)
HrLike(ln) == \E c \in {"*", "_", "-"} : (\A i \in DOMAIN ln : OnlyChar(Vocab[ln[i]].t, c)) /\ SumLen(ln, 1) >= 3
LineOk(ln) == /\ ln # << >>
              /\ ~HrLike(ln)
              /\ (\E i \in DOMAIN ln : Vocab[ln[i]].t \notin UnderlineLike)
              /\ ~Vocab[ln[Len(ln)]].eb
              /\ ((\E i \in DOMAIN ln : Vocab[ln[i]].pp) => (\E i \in DOMAIN ln : Vocab[ln[i]].wd))

Init == lines = << >> /\ cur = << >> /\ ticks = 0 /\ stars = 0 /\ phase = "typing"

Add(l) ==
    /\ phase = "typing" /\ Len(cur) < MaxPerLine
    /\ (cur = << >> => (~Vocab[l].sb \/ (Vocab[l].fl /\ lines # << >>)))
    /\ (Vocab[l].tk => ticks = 0)
    /\ (Vocab[l].st => stars = 0)
    /\ cur' = Append(cur, l)
    /\ ticks' = ticks + (IF Vocab[l].tk THEN 1 ELSE 0)
    /\ stars' = stars + (IF Vocab[l].st THEN 1 ELSE 0)
    /\ UNCHANGED <<lines, phase>>

NewLine ==
    /\ phase = "typing" /\ LineOk(cur) /\ Len(lines) + 1 < MaxLines
    /\ lines' = Append(lines, cur) /\ cur' = << >>
    /\ UNCHANGED <<ticks, stars, phase>>

Finish ==
    /\ phase = "typing" /\ LineOk(cur)
    /\ lines' = Append(lines, cur) /\ cur' = << >> /\ phase' = "done"
    /\ UNCHANGED <<ticks, stars>>

Next == (\E l \in Lex : Add(l)) \/ NewLine \/ Finish

---------------------------------------------------------------------------
RECURSIVE Join(_, _)
Join(ss, sep) == IF ss = << >> THEN "" ELSE IF Len(ss) = 1 THEN ss[1] ELSE ss[1] \o sep \o Join(Tail(ss), sep)

RECURSIVE Esc(_)
Esc(s) == IF s = "" THEN ""
          ELSE LET c == SubSeq(s, 1, 1) IN
               (CASE c = "&" -> "&amp;" [] c = "<" -> "&lt;" [] c = ">" -> "&gt;" [] OTHER -> c) \o Esc(SubSeq(s, 2, Len(s)))

LineText(ln) == Join([i \in DOMAIN ln |-> Vocab[ln[i]].t], " ")
Text == Join([k \in DOMAIN lines |-> LineText(lines[k])], "\n")
Expected == "<p>" \o Esc(Text) \o "</p>\n"

TypeOK == ticks <= 1 /\ stars <= 1 /\ Len(lines) <= MaxLines

Export == phase = "done" => PrintT(ToJson([src |-> Text \o "\n", html |-> Expected]))
=============================================================================
