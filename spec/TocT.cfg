CONSTANTS
  MaxHeadings = 4
  MaxLevel = 4
INIT Init
NEXT Next
INVARIANT IndentNestingIsLevelNesting
INVARIANT Export
CHECK_DEADLOCK FALSE
