CONSTANTS
  MaxHeadings = 4
  MaxLevel = 4
  VariantSet = {1, 2, 3, 4, 5, 6}
INIT Init
NEXT Next
INVARIANT IndentNestingIsLevelNesting
INVARIANT Export
CHECK_DEADLOCK FALSE
