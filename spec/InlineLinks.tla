----------------------------- MODULE InlineLinks -----------------------------
(***************************************************************************)
(* C06 / C03 extension: the inline phase of CommonMark 0.30 section 6 with *)
(* brackets - "look for link or image" together with "process emphasis".   *)
(*                                                                         *)
(* Alphabet:  "a" other character, " " whitespace, "." punctuation,        *)
(*            "*" "_" delimiter characters,                                *)
(*            "[" an opening bracket,                                      *)
(*            "]" a closing bracket that is followed by an inline          *)
(*                destination: it is WRITTEN as "](u)"                     *)
(* Scanning left to right, delimiter runs and "[" are pushed on the        *)
(* delimiter stack.  At "]" the nearest "[" below is looked up: none ->    *)
(* literal; inactive -> removed, literal; active -> a link: emphasis is    *)
(* processed for the delimiters above the opener (stack bottom = opener),  *)
(* the opener is removed and every earlier "[" is deactivated (links do    *)
(* not nest).  At the end emphasis is processed with no bottom.            *)
(* Result tokens: p > 0 the character at p;  -1 <em> -2 </em> -3 <strong>  *)
(* -4 </strong>  -5 <a href="u">  -6 </a>  -7 the literal text "](u)".     *)
(* "!" directly before "[" makes it an image opener ("![" is one stack      *)
(* entry): an image is closed like a link, but earlier brackets stay       *)
(* active (a link may stand inside an image and an image inside a link);   *)
(* -8 <img src="u" alt="  -9 " />  (the harness flattens what is between). *)
(***************************************************************************)
EXTENDS Naturals, Integers, Sequences, FiniteSets, TLC, Json, IOUtils

CONSTANTS Alphabet, MaxLen

VARIABLES input, pos, stack, bottom, cur, ems, links, lit, phase
vars == <<input, pos, stack, bottom, cur, ems, links, lit, phase>>

IsWs(c)    == c = " "
IsPunct(c) == c \in {".", "*", "_", "[", "]", "!"}
IsDelim(c) == c \in {"*", "_"}
(* what stands before / after position p in the WRITTEN text: "]" is written "](u)", so what follows it is "(" and what
   precedes the character after it is ")" - both punctuation, like "]" itself *)
Before(s, p) == IF p <= 1 THEN " " ELSE s[p - 1]
After(s, p)  == IF p >= Len(s) THEN " " ELSE s[p + 1]

LeftFlanking(s, b, e)  == ~IsWs(After(s, e)) /\ (~IsPunct(After(s, e)) \/ IsWs(Before(s, b)) \/ IsPunct(Before(s, b)))
RightFlanking(s, b, e) == ~IsWs(Before(s, b)) /\ (~IsPunct(Before(s, b)) \/ IsWs(After(s, e)) \/ IsPunct(After(s, e)))
CanOpen(s, b, e)  == IF s[b] = "*" THEN LeftFlanking(s, b, e) ELSE LeftFlanking(s, b, e) /\ (~RightFlanking(s, b, e) \/ IsPunct(Before(s, b)))
CanClose(s, b, e) == IF s[b] = "*" THEN RightFlanking(s, b, e) ELSE RightFlanking(s, b, e) /\ (~LeftFlanking(s, b, e) \/ IsPunct(After(s, e)))
RunEnd(s, b) == CHOOSE e \in b..Len(s) : (\A q \in b..e : s[q] = s[b]) /\ (e = Len(s) \/ s[e + 1] # s[b])

Run(s, b) == LET e == RunEnd(s, b) IN
    [k |-> "run", ch |-> s[b], s |-> b, e |-> e, orig |-> e - b + 1, open |-> CanOpen(s, b, e), close |-> CanClose(s, b, e), active |-> TRUE, img |-> FALSE]
Bracket(p) == [k |-> "[", ch |-> "[", s |-> p, e |-> p, orig |-> 1, open |-> FALSE, close |-> FALSE, active |-> TRUE, img |-> FALSE]
ImageBracket(p) == [k |-> "[", ch |-> "[", s |-> p, e |-> p + 1, orig |-> 1, open |-> FALSE, close |-> FALSE, active |-> TRUE, img |-> TRUE]       \* "![" at p, p + 1

Num(d) == d.e - d.s + 1
Odd(o, c)     == (c.open \/ o.close) /\ (o.orig + c.orig) % 3 = 0 /\ ~(o.orig % 3 = 0 /\ c.orig % 3 = 0)
Matches(o, c) == o.k = "run" /\ o.open /\ o.ch = c.ch /\ ~Odd(o, c)

Proper(s) == Len(s) = 0 \/ (~IsWs(s[1]) /\ ~IsWs(s[Len(s)]))
InShard(s) == LET p == IOEnv.SHARD IN
    IF p = "-" THEN TRUE ELSE IF p = "" THEN Len(s) < 2 ELSE Len(s) >= 2 /\ s[1] = SubSeq(p, 1, 1) /\ s[2] = SubSeq(p, 2, 2)

Init ==
    /\ input \in {s \in UNION {[1..n -> Alphabet] : n \in 0..MaxLen} : Proper(s) /\ InShard(s)}
    /\ pos = 1 /\ stack = << >> /\ bottom = 0 /\ cur = 1 /\ ems = {} /\ links = {} /\ lit = {} /\ phase = "scan"

RemoveAt(sq, k) == SubSeq(sq, 1, k - 1) \o SubSeq(sq, k + 1, Len(sq))

(* one step of scanning *)
Scan ==
    /\ phase = "scan"
    /\ IF pos > Len(input)
       THEN /\ phase' = "emph" /\ bottom' = 0 /\ cur' = 1
            /\ UNCHANGED <<input, pos, stack, ems, links, lit>>
       ELSE LET c == input[pos] IN
            IF IsDelim(c)
            THEN /\ stack' = Append(stack, Run(input, pos)) /\ pos' = RunEnd(input, pos) + 1
                 /\ UNCHANGED <<input, bottom, cur, ems, links, lit, phase>>
            ELSE IF c = "["
            THEN /\ stack' = Append(stack, Bracket(pos)) /\ pos' = pos + 1
                 /\ UNCHANGED <<input, bottom, cur, ems, links, lit, phase>>
            ELSE IF c = "!" /\ pos < Len(input) /\ input[pos + 1] = "["
            THEN /\ stack' = Append(stack, ImageBracket(pos)) /\ pos' = pos + 2
                 /\ UNCHANGED <<input, bottom, cur, ems, links, lit, phase>>
            ELSE IF c = "]"
            THEN LET B == {j \in DOMAIN stack : stack[j].k = "["} IN
                 IF B = {}
                 THEN /\ lit' = lit \cup {pos} /\ pos' = pos + 1
                      /\ UNCHANGED <<input, stack, bottom, cur, ems, links, phase>>
                 ELSE LET j == CHOOSE x \in B : \A y \in B : x >= y IN
                      IF ~stack[j].active
                      THEN /\ stack' = RemoveAt(stack, j) /\ lit' = lit \cup {pos} /\ pos' = pos + 1
                           /\ UNCHANGED <<input, bottom, cur, ems, links, phase>>
                      ELSE /\ links' = links \cup {[os |-> stack[j].s, cs |-> pos, img |-> stack[j].img]}
                           /\ phase' = "linkemph" /\ bottom' = j /\ cur' = j + 1
                           /\ UNCHANGED <<input, pos, stack, ems, lit>>
            ELSE /\ pos' = pos + 1 /\ UNCHANGED <<input, stack, bottom, cur, ems, links, lit, phase>>

(* process emphasis above `bottom` (0 = whole stack); when no closer is left: drop everything above the bottom and, for a
   link, remove the opener and deactivate the earlier brackets *)
Emph ==
    /\ phase \in {"emph", "linkemph"}
    /\ LET closers == {k \in cur..Len(stack) : stack[k].k = "run" /\ stack[k].close} IN
       IF closers = {}
       THEN IF phase = "emph"
            THEN /\ phase' = "done" /\ UNCHANGED <<input, pos, stack, bottom, cur, ems, links, lit>>
            ELSE /\ stack' = [i \in 1..(bottom - 1) |-> IF stack[i].k = "[" /\ ~stack[i].img /\ ~stack[bottom].img THEN [stack[i] EXCEPT !.active = FALSE] ELSE stack[i]]
                 /\ phase' = "scan" /\ pos' = pos + 1 /\ bottom' = 0 /\ cur' = 1
                 /\ UNCHANGED <<input, ems, links, lit>>
       ELSE LET k == CHOOSE x \in closers : \A y \in closers : x <= y
                c == stack[k]
                openers == {j \in (bottom + 1)..(k - 1) : Matches(stack[j], c)} IN
            IF openers = {}
            THEN /\ IF c.open THEN stack' = stack /\ cur' = k + 1
                              ELSE stack' = RemoveAt(stack, k) /\ cur' = k
                 /\ UNCHANGED <<input, pos, bottom, ems, links, lit, phase>>
            ELSE LET j == CHOOSE x \in openers : \A y \in openers : x >= y
                     o == stack[j]
                     w == IF Num(o) >= 2 /\ Num(c) >= 2 THEN 2 ELSE 1
                     o2 == [o EXCEPT !.e = o.e - w]
                     c2 == [c EXCEPT !.s = c.s + w]
                     keepO == IF Num(o2) > 0 THEN <<o2>> ELSE << >>
                     keepC == IF Num(c2) > 0 THEN <<c2>> ELSE << >> IN
                 /\ ems' = ems \cup {[os |-> o.e - w + 1, cs |-> c.s, w |-> w]}
                 /\ stack' = SubSeq(stack, 1, j - 1) \o keepO \o keepC \o SubSeq(stack, k + 1, Len(stack))
                 /\ cur' = j + Len(keepO)
                 /\ UNCHANGED <<input, pos, bottom, links, lit, phase>>

Next == Scan \/ Emph

---------------------------------------------------------------------------
RECURSIVE Out(_)
Out(p) ==
    IF p > Len(input) THEN << >>
    ELSE IF \E m \in ems : m.os = p THEN LET m == CHOOSE x \in ems : x.os = p IN <<IF m.w = 2 THEN -3 ELSE -1>> \o Out(p + m.w)
    ELSE IF \E m \in ems : m.cs = p THEN LET m == CHOOSE x \in ems : x.cs = p IN <<IF m.w = 2 THEN -4 ELSE -2>> \o Out(p + m.w)
    ELSE IF \E l \in links : l.os = p THEN (LET l == CHOOSE x \in links : x.os = p IN IF l.img THEN <<-8>> \o Out(p + 2) ELSE <<-5>> \o Out(p + 1))
    ELSE IF \E l \in links : l.cs = p THEN (LET l == CHOOSE x \in links : x.cs = p IN <<IF l.img THEN -9 ELSE -6>> \o Out(p + 1))
    ELSE IF p \in lit THEN <<-7>> \o Out(p + 1)
    ELSE <<p>> \o Out(p + 1)

RECURSIVE Flat(_)
Flat(s) == IF s = << >> THEN "" ELSE Head(s) \o Flat(Tail(s))

TypeOK == /\ cur \in 1..(Len(stack) + 1) /\ bottom \in 0..Len(stack)
          /\ \A k \in DOMAIN stack : Num(stack[k]) >= 1
(* links do not nest, and emphasis never straddles a link boundary *)
LinksDisjoint == \A l1, l2 \in {l \in links : ~l.img} : l1 = l2 \/ l1.cs < l2.os \/ l2.cs < l1.os
(* links and images are nested properly *)
Laminar == \A l1, l2 \in links : l1 = l2 \/ l1.cs < l2.os \/ l2.cs < l1.os \/ (l1.os < l2.os /\ l2.cs < l1.cs) \/ (l2.os < l1.os /\ l1.cs < l2.cs)
NoStraddle == \A m \in ems : \A l \in links :
    \/ (m.cs + m.w - 1 < l.os) \/ (m.os > l.cs)                      \* beside
    \/ (m.os > l.os /\ m.cs + m.w - 1 < l.cs)                         \* inside the link text
    \/ (m.os + m.w - 1 < l.os /\ m.cs > l.cs)                         \* around the link

Export == phase = "done" => PrintT(ToJson([input |-> Flat(input), out |-> Out(1)]))
=============================================================================
