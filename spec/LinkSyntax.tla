----------------------------- MODULE LinkSyntax -----------------------------
(***************************************************************************)
(* The inline link syntax of CommonMark 0.30 (section 6.3): what may stand  *)
(* between "](" and ")".                                                    *)
(*   destination: "<" ... ">" without line ends and without unescaped angle *)
(*     brackets, or a run without spaces whose unescaped parentheses are    *)
(*     balanced (possibly empty);                                           *)
(*   title: separated from the destination by whitespace; "..." or '...'    *)
(*     (the delimiter only backslash-escaped inside) or (...) (parentheses  *)
(*     only backslash-escaped inside);                                      *)
(*   optional whitespace around both; then ")".                             *)
(* The text is "[x](" followed by a tail over a raw alphabet; if the tail   *)
(* begins with a valid remainder of an inline link the result is the link   *)
(* followed by the rest as ordinary text, otherwise everything is ordinary  *)
(* text (scanned by InlineScan: escapes, raw HTML tags, autolinks).         *)
(* Every tail up to a length bound is explored; the harness renders the     *)
(* text with the real parser and compares.                                  *)
(***************************************************************************)
EXTENDS InlineScan

CONSTANTS TailAlphabet, TailMaxLen

Prefix == <<"[", "x", "]", "(">>
(* alphabets (a configuration file cannot spell a backslash or a double quote) *)
K1 == {"a", "(", ")", "\\", " ", "\""}
K2 == {"a", "<", ">", "\\", " ", ")"}
K3 == {"a", "'", "(", ")", " ", "\""}
K5 == {"&", "l", "t", ";", "\\", ")"}             \* character references and escapes in a destination ("&ll;" is U+226A)
K4 == {"a", "(", ")", " "}                       \* parentheses only, read deeper

(* -- the remainder of an inline link, parsed from position i of sequence r -- *)
IsWsCh(c) == c = " "
RECURSIVE SkipWs(_, _)
SkipWs(r, i) == IF At(r, i) = " " THEN SkipWs(r, i + 1) ELSE i

(* "<...>": position of the closing ">" or 0 *)
RECURSIVE AngleEnd(_, _)
AngleEnd(r, i) == IF i > Len(r) THEN 0
                  ELSE IF r[i] = "\\" /\ At(r, i + 1) \in AsciiPunct THEN AngleEnd(r, i + 2)
                  ELSE IF r[i] = ">" THEN i
                  ELSE IF r[i] = "<" THEN 0
                  ELSE AngleEnd(r, i + 1)
(* plain destination: first position behind it (depth = open parentheses); 0 if the parentheses do not balance *)
RECURSIVE PlainEnd(_, _, _)
PlainEnd(r, i, depth) ==
    IF i > Len(r) \/ r[i] = " " THEN (IF depth = 0 THEN i ELSE 0)
    ELSE IF r[i] = "\\" /\ At(r, i + 1) \in AsciiPunct THEN PlainEnd(r, i + 2, depth)
    ELSE IF r[i] = "(" THEN PlainEnd(r, i + 1, depth + 1)
    ELSE IF r[i] = ")" THEN (IF depth = 0 THEN i ELSE PlainEnd(r, i + 1, depth - 1))
    ELSE PlainEnd(r, i + 1, depth)
(* title that starts at i (r[i] is the opening delimiter): position of the closing delimiter or 0 *)
RECURSIVE TitleEnd(_, _, _)
TitleEnd(r, i, close) ==
    IF i > Len(r) THEN 0
    ELSE IF r[i] = "\\" /\ At(r, i + 1) \in AsciiPunct THEN TitleEnd(r, i + 2, close)
    ELSE IF r[i] = close THEN i
    ELSE IF close = ")" /\ r[i] = "(" THEN 0
    ELSE TitleEnd(r, i + 1, close)

(* backslash escapes and character references resolved, in one pass *)
RECURSIVE Unesc(_)
Unesc(sq) == IF sq = << >> THEN << >>
             ELSE IF Head(sq) = "\\" /\ Len(sq) >= 2 /\ sq[2] \in AsciiPunct THEN <<sq[2]>> \o Unesc(SubSeq(sq, 3, Len(sq)))
             ELSE IF Head(sq) = "&" /\ EntityEnd(sq, 1) > 0 THEN <<EntityText(sq, Seg("ent", 1, EntityEnd(sq, 1)))>> \o Unesc(SubSeq(sq, EntityEnd(sq, 1) + 1, Len(sq)))
             ELSE <<Head(sq)>> \o Unesc(Tail(sq))

NoLink == [ok |-> FALSE, dest |-> << >>, title |-> << >>, hasTitle |-> FALSE, next |-> 0]
(* r = Prefix \o tail; the link remainder starts at position 5 *)
ParseRemainder(r) ==
    LET d0 == SkipWs(r, 5)
        angle == At(r, d0) = "<"
        aEnd == IF angle THEN AngleEnd(r, d0 + 1) ELSE 0
        pEnd == IF angle THEN 0 ELSE PlainEnd(r, d0, 0)
        destOk == IF angle THEN aEnd > 0 ELSE pEnd > 0
        dest == IF angle THEN SubSeq(r, d0 + 1, aEnd - 1) ELSE SubSeq(r, d0, pEnd - 1)
        after == IF angle THEN aEnd + 1 ELSE pEnd                      \* first position behind the destination
        t0 == SkipWs(r, after)
        q == At(r, t0)
        close == IF q = "(" THEN ")" ELSE q
        tEnd == IF t0 > after /\ q \in {"\"", "'", "("} THEN TitleEnd(r, t0 + 1, close) ELSE 0
        hasTitle == tEnd > 0
        e == SkipWs(r, IF hasTitle THEN tEnd + 1 ELSE t0) IN
    IF destOk /\ At(r, e) = ")"
    THEN [ok |-> TRUE, dest |-> Unesc(dest), title |-> IF hasTitle THEN Unesc(SubSeq(r, t0 + 1, tEnd - 1)) ELSE << >>, hasTitle |-> hasTitle, next |-> e + 1]
    ELSE NoLink

(* -- rendering -- *)
RECURSIVE HrefEnc(_)
HrefEnc(sq) == IF sq = << >> THEN ""
               ELSE LET c == Head(sq) IN
                    (CASE c = " " -> "%20" [] c = "\"" -> "%22" [] c = "'" -> "%27" [] c = "\\" -> "%5C" [] c = "<" -> "%3C" [] c = ">" -> "%3E" [] c = "&" -> "&amp;" [] c = "{U+226A}" -> "%E2%89%AA" [] OTHER -> c)
                    \o HrefEnc(Tail(sq))
RECURSIVE AttrEsc(_)
AttrEsc(t) == IF t = "" THEN "" ELSE LET c == SubSeq(t, 1, 1) IN
              (CASE c = "&" -> "&amp;" [] c = "<" -> "&lt;" [] c = ">" -> "&gt;" [] c = "\"" -> "&quot;" [] c = "'" -> "&#x27;" [] OTHER -> c) \o AttrEsc(SubSeq(t, 2, Len(t)))
              \* (how an apostrophe is spelled inside an attribute value is the implementation's choice)
TextOf(sq) == IF sq = << >> THEN "" ELSE RenderToks(sq, Scan(sq), [i \in 1..Len(sq) |-> i])     \* ordinary text (no emphasis delimiters in these alphabets)

Full == Prefix \o raw
LinkHtml ==
    LET p == ParseRemainder(Full) IN
    IF p.ok
    THEN "<a href=\"" \o HrefEnc(p.dest) \o "\"" \o (IF p.hasTitle /\ p.title # << >> THEN " title=\"" \o AttrEsc(Flat(p.title)) \o "\"" ELSE "") \o ">x</a>"
         \o TextOf(SubSeq(Full, p.next, Len(Full)))
    ELSE TextOf(Full)

Tails == UNION {[1..n -> TailAlphabet] : n \in 1..TailMaxLen}
LShard(t) == IF IOEnv.SHARD = "-" THEN TRUE ELSE t[1] = IOEnv.SHARD
LInit == /\ raw \in {t \in Tails : t[Len(t)] # " " /\ LShard(t)}        \* (a heading strips trailing spaces)
         /\ input = << >> /\ stack = << >> /\ cur = 1 /\ matches = {} /\ phase = "done"
LNext == UNCHANGED ivars
LSpec == LInit /\ [][LNext]_ivars

(* the parse consumes a prefix of the text *)
NextInRange == LET p == ParseRemainder(Full) IN p.ok => (p.next >= 6 /\ p.next <= Len(Full) + 1)

LTags == {}

LExport == PrintT(ToJson([input |-> Flat(Full), html |-> LinkHtml, link |-> IF ParseRemainder(Full).ok THEN "yes" ELSE "no", tags |-> LTags]))
=============================================================================
