CONSTANTS
  NLines = 1
  Misbehave = FALSE
INIT TInit
NEXT TNext
INVARIANT Report
CHECK_DEADLOCK FALSE
