CONSTANTS
  Alphabet = {"a"}
  MaxLen = 0
  RawAlphabet = {"a"}
  RawMaxLen = 1
  TagTailAlphabet <- T2
  TagTailMaxLen = 7
SPECIFICATION TSpec
INVARIANT TagInRange
INVARIANT TExport
CHECK_DEADLOCK FALSE
