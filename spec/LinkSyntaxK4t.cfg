CONSTANTS
  Alphabet = {"a"}
  MaxLen = 0
  RawAlphabet = {"a"}
  RawMaxLen = 1
  TailAlphabet <- K4
  TailMaxLen = 8
SPECIFICATION LSpec
INVARIANT NextInRange
INVARIANT LExport
CHECK_DEADLOCK FALSE
