CONSTANTS
  MaxHeadings = 3
  MaxLevel = 3
  VariantSet = {1, 2, 3, 4, 5, 6}
INIT Init
NEXT Next
INVARIANT IndentNestingIsLevelNesting
INVARIANT Export
CHECK_DEADLOCK FALSE
