CONSTANTS
  MaxHeadings = 3
  MaxLevel = 3
INIT Init
NEXT Next
INVARIANT IndentNestingIsLevelNesting
INVARIANT Export
CHECK_DEADLOCK FALSE
