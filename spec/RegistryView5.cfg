CONSTANTS
  MaxCtx = 2
  MaxHist = 5
INIT Init
NEXT NextExport
INVARIANT TypeOK
INVARIANT AfterExitDefaults
INVARIANT CleanAtRest
INVARIANT HistoryFree
INVARIANT NoDuplicatesShallow
CHECK_DEADLOCK FALSE
VIEW StateView
