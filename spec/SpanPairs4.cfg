CONSTANTS
  P = 4
  Precs = {3, 4, 5, 6, 7}
  NCands = 2
  Enclosed = FALSE
INIT Init
NEXT Next
INVARIANT FoldWellTiled
INVARIANT PairRule
INVARIANT Export
CHECK_DEADLOCK FALSE
