CONSTANTS
  MaxBlocks = 2
  MaxDepth = 1
  Level = 2
  EnabledKinds = {"para", "atx", "setext", "hr", "fence", "code", "def", "quote", "list", "table", "html"}
INIT Init
NEXT Next
INVARIANT TypeOK
INVARIANT LinesOrdered
INVARIANT FirstWins
INVARIANT Export
CONSTRAINT NormalForm
CHECK_DEADLOCK FALSE
