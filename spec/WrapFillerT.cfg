CONSTANTS
  MaxItems = 5
  MaxLen = 3
  Budgets = {1, 2, 3, 4, 5, 6, 7, 8, 9, 10, 11, 12, 13, 14}
  Mode = "filler"
  MaxPath = 0
  Templates = {"plain1"}
INIT Init
NEXT Next
INVARIANT FillerCorrect
INVARIANT ExportFiller
CHECK_DEADLOCK FALSE
