CONSTANTS
  Alphabet = {"a", "*", "[", "]", "!"}
  MaxLen = 7
INIT Init
NEXT Next
INVARIANT TypeOK
INVARIANT LinksDisjoint
INVARIANT NoStraddle
INVARIANT Laminar
INVARIANT Export
CHECK_DEADLOCK FALSE
