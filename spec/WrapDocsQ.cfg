CONSTANTS
  MaxItems = 3
  MaxLen = 3
  Budgets = {1}
  Mode = "docs"
  MaxPath = 2
  Templates = {"plain1", "plain3", "em", "angle", "image"}
INIT Init
NEXT Next
INVARIANT ExportDoc
CHECK_DEADLOCK FALSE
