------------------------------ MODULE SpanTrace ------------------------------
(***************************************************************************)
(* C16, code -> spec: judgement of inline token forests recorded from the  *)
(* real tokenizer.  A node is                                              *)
(*   [k |-> "raw", text |-> its content, kids |-> <<>>]            or      *)
(*   [k |-> "tok", s, e, ps, pe, inner |-> "yes"|"no", kids |-> nodes]     *)
(* Cover says: the nodes tile [from, to) of the source in order without    *)
(* gap or overlap, raw text reproduces the source exactly, children tile   *)
(* exactly the parent's parse group, only inner tokens have children.      *)
(* That is "in source order, pairwise disjoint, children inside the parse  *)
(* group, source recovered by concatenating raw text, delimiters and       *)
(* children".                                                              *)
(***************************************************************************)
EXTENDS Naturals, Sequences, TLC, Json, IOUtils

RECURSIVE CoverFrom(_, _, _, _, _)
CoverFrom(nodes, i, cur, to, text) ==
    IF i > Len(nodes) THEN cur = to
    ELSE LET n == nodes[i] IN
         IF n.k = "raw"
         THEN /\ Len(n.text) > 0
              /\ cur + Len(n.text) <= to
              /\ SubSeq(text, cur + 1, cur + Len(n.text)) = n.text
              /\ CoverFrom(nodes, i + 1, cur + Len(n.text), to, text)
         ELSE /\ n.s = cur /\ n.s <= n.ps /\ n.ps <= n.pe /\ n.pe <= n.e /\ n.e <= to
              /\ IF n.inner = "yes" THEN CoverFrom(n.kids, 1, n.ps, n.pe, text) ELSE n.kids = << >>
              /\ CoverFrom(nodes, i + 1, n.e, to, text)

Builtin == {"RawText", "EscapeSequence", "Strikethrough", "AutoLink", "Strong", "Emphasis", "Link", "Image", "InlineCode", "LineBreak"}

Judge(r) ==
    CASE r.law = "cover" -> IF CoverFrom(r.nodes, 1, 0, Len(r.text), r.text) THEN "ok" ELSE "Span.tiling"
      [] r.law = "scope" -> IF \A i \in DOMAIN r.classes : r.classes[i] \in Builtin THEN "ok" ELSE "Span.custom-token-outside-context"
      [] OTHER -> "unknown-law"

Recs == ndJsonDeserialize(IOEnv.TRACE_FILE)
VARIABLES tid, verdict
Init == tid \in 1..Len(Recs) /\ verdict = Judge(Recs[tid])
Next == UNCHANGED <<tid, verdict>>
Report == verdict = "ok" \/ PrintT(ToJson([tid |-> tid, verdict |-> verdict]))
=============================================================================
