CONSTANTS
  Alphabet = {"a", "> a", ">", "- a", "  a", "", "    a", "---", "1. a", "> - a", "- b", "   a", "2. a", "* a", "-", "  - a", "```", "````", "~~~", "# a", "## a #", "===", "  ```", "***", " a", "      a", "> ```", "> > a", ">     a", "- > a", "  > a", ">   a", "1) a", "10. a", "1.", "0. a", "-   a", "-     a", "- ```", "```x", "  ~~~", "> ===", "> ---", "  ===", "  ---", "- ---", "=", "--", "  - b", "    - c", "  b", "    c", "b", "   - d", "   b", "     e", "> # a", "- # a", "#", "####### a", "#a", "# a #", "  # a", "    # a", "## ", "# #", "> 1. a", ">  - a", "   > a", "- - a", "1. - a", "  1. a", "   ```", "> ~~~", "* * *", "- - -", "+ a", "  + a", "  > > a", "    10. a", "a  b", "<div>", "</div>", "<pre>", "</pre>", "<!-- c", "c -->", "<x>", "> <div>", "  <div>", "<PRE>", "</style>", "<span>a", "</x>", "<!d>", "<?p", "?>", "- <div>", "<hr/>", "[a]: /u", "[a]", "(t", "t)", "[a]: /u (t)", "[A]: /w", "> [a]: /u", "[a]:", "/u"}
  MaxLines = 9
SPECIFICATION Spec
INVARIANT TypeOK
INVARIANT StateIsParse
INVARIANT Ordered2
INVARIANT Nested
INVARIANT QuoteLaw
INVARIANT ListLaw
INVARIANT Export
CHECK_DEADLOCK FALSE
