CONSTANTS
  Alphabet = {"1. a", "2. b", "   c", "", "a", "1) d", "  e"}
  MaxLines = 6
SPECIFICATION Spec
INVARIANT TypeOK
INVARIANT StateIsParse
INVARIANT Ordered2
INVARIANT Nested
INVARIANT QuoteLaw
INVARIANT ListLaw
INVARIANT ConcatLaw
INVARIANT Export
CHECK_DEADLOCK FALSE
