CONSTANTS
  Alphabet = {"- a", "  - b", "    - c", "  b", "    c", "", "b", "   - d", "1. a", "   b", "     e"}
  MaxLines = 4
SPECIFICATION Spec
INVARIANT TypeOK
INVARIANT StateIsParse
INVARIANT Ordered2
INVARIANT Nested
INVARIANT QuoteLaw
INVARIANT ListLaw
INVARIANT ConcatLaw
INVARIANT Export
CHECK_DEADLOCK FALSE
