CONSTANTS
  Alphabet = {"[a]: /u", "[a]", "", "a", "> [a]: /v", "- [a]", "  b"}
  MaxLines = 6
SPECIFICATION Spec
INVARIANT TypeOK
INVARIANT StateIsParse
INVARIANT Ordered2
INVARIANT Nested
INVARIANT QuoteLaw
INVARIANT ListLaw
INVARIANT ConcatLaw
INVARIANT Export
CHECK_DEADLOCK FALSE
