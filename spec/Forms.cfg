INIT Init
NEXT Next
INVARIANT FormsCoincide
INVARIANT Export
CHECK_DEADLOCK FALSE
