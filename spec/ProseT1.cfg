CONSTANTS
  Pool = "all"
  MaxLines = 1
  MaxPerLine = 3
  MaxLexemes = 0
INIT Init
NEXT Next
INVARIANT TypeOK
INVARIANT Export
CHECK_DEADLOCK FALSE
