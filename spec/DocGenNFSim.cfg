CONSTANTS
  MaxBlocks = 8
  MaxDepth = 3
  Level = 2
  EnabledKinds = {"para", "atx", "setext", "hr", "fence", "code", "def", "quote", "list", "table", "html"}
INIT Init
NEXT Next
INVARIANT TypeOK
INVARIANT LinesOrdered
INVARIANT FirstWins
INVARIANT Export
CHECK_DEADLOCK FALSE
CONSTRAINT NormalForm
