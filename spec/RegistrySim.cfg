CONSTANTS
  MaxCtx = 3
  MaxHist = 40
INIT Init
NEXT NextExport
INVARIANT TypeOK
INVARIANT AfterExitDefaults
INVARIANT CleanAtRest
INVARIANT HistoryFree
INVARIANT NoDuplicatesShallow
CHECK_DEADLOCK FALSE

