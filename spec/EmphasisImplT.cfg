CONSTANTS
  Alphabet = {"a", " ", "*", "_", "."}
  MaxLen = 8
INIT LockInit
NEXT LockNext
INVARIANT IndexesInRange
INVARIANT NoEmptyRun
INVARIANT Refines
CHECK_DEADLOCK FALSE
