CONSTANTS
  Alphabet = {"[a]: /u", "(t", "t)", "# h", "---", "***", "[a]", "> q", "    c"}
  MaxLines = 4
SPECIFICATION Spec
INVARIANT TypeOK
INVARIANT StateIsParse
INVARIANT Ordered2
INVARIANT Nested
INVARIANT QuoteLaw
INVARIANT ListLaw
INVARIANT ConcatLaw
INVARIANT Export
CHECK_DEADLOCK FALSE
