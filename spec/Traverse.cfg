CONSTANT MaxNodes = 4
INIT Init
NEXT Next
INVARIANT Faithful
INVARIANT Bounded
CHECK_DEADLOCK FALSE
