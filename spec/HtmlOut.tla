------------------------------- MODULE HtmlOut -------------------------------
(***************************************************************************)
(* C08: the HTML renderer's output as a stream of lexical events, and the  *)
(* acceptor that says which streams are well-formed and injection-free.    *)
(*                                                                         *)
(* Events (produced by a strict lexer in the harness; anything that is not *)
(* a well-formed tag or a text run becomes an "illegal" event, for which   *)
(* the acceptor has no transition):                                        *)
(*   [k |-> "open",  tag, attrs]      <tag a="v" ...>                      *)
(*   [k |-> "void",  tag, attrs]      <tag a="v" ... />                    *)
(*   [k |-> "close", tag]             </tag>                               *)
(*   [k |-> "text",  bad]             a text run                           *)
(*   [k |-> "illegal"]                                                     *)
(* attrs is a sequence of [name, bad]; `bad` names the first lexical fact  *)
(* that makes a value or text unsafe ("" when none): "lt", "gt", "amp" (an *)
(* ampersand that does not start one of the renderer's own escapes),       *)
(* "quote".                                                                *)
(* The acceptor's state is the stack of open elements.                     *)
(***************************************************************************)
EXTENDS Naturals, Sequences, TLC, Json, IOUtils

Paired == {"p", "h1", "h2", "h3", "h4", "h5", "h6", "blockquote", "pre", "code", "ul", "ol", "li", "em", "strong", "del", "a",
           "table", "thead", "tbody", "tr", "th", "td"}
Void   == {"hr", "br", "img"}

Allowed(tag) ==
    CASE tag = "a"    -> {"href", "title"}
      [] tag = "img"  -> {"src", "alt", "title"}
      [] tag = "code" -> {"class"}
      [] tag = "ol"   -> {"start"}
      [] tag \in {"th", "td"} -> {"align"}
      [] OTHER -> {}

AttrVerdict(tag, attrs) ==
    IF \E i \in DOMAIN attrs : attrs[i].name \notin Allowed(tag) THEN "Html.unknown-attribute"
    ELSE IF \E i \in DOMAIN attrs : attrs[i].bad # "" THEN "Html.attribute-value-" \o (CHOOSE b \in {attrs[i].bad : i \in {j \in DOMAIN attrs : attrs[j].bad # ""}} : TRUE)
    ELSE IF \E i, j \in DOMAIN attrs : i # j /\ attrs[i].name = attrs[j].name THEN "Html.duplicate-attribute"
    ELSE "ok"

RECURSIVE Accept(_, _, _)
Accept(evs, i, stack) ==
    IF i > Len(evs) THEN (IF stack = << >> THEN "ok" ELSE "Html.unclosed-element")
    ELSE LET e == evs[i] IN
         CASE e.k = "illegal" -> "Html.illegal-markup"
           [] e.k = "text"    -> IF e.bad # "" THEN "Html.text-" \o e.bad ELSE Accept(evs, i + 1, stack)
           [] e.k = "open"    -> IF e.tag \notin Paired THEN "Html.unknown-tag"
                                 ELSE IF AttrVerdict(e.tag, e.attrs) # "ok" THEN AttrVerdict(e.tag, e.attrs)
                                 ELSE Accept(evs, i + 1, Append(stack, e.tag))
           [] e.k = "void"    -> IF e.tag \notin Void THEN "Html.unknown-tag"
                                 ELSE IF AttrVerdict(e.tag, e.attrs) # "ok" THEN AttrVerdict(e.tag, e.attrs)
                                 ELSE Accept(evs, i + 1, stack)
           [] e.k = "close"   -> IF stack = << >> \/ stack[Len(stack)] # e.tag THEN "Html.misnested-close"
                                 ELSE Accept(evs, i + 1, SubSeq(stack, 1, Len(stack) - 1))
           [] OTHER -> "Html.unknown-event"

---------------------------------------------------------------------------
(* the escaping helpers, character by character.  cls is the class of the  *)
(* input character, image its image ("SELF" = the character itself).       *)
TextImage(cls, dq, sq) ==
    CASE cls = "amp"    -> "&amp;"
      [] cls = "lt"     -> "&lt;"
      [] cls = "gt"     -> "&gt;"
      [] cls = "dquote" -> IF dq = "yes" THEN "&quot;" ELSE "SELF"
      [] cls = "squote" -> IF sq = "yes" THEN "&#x27;" ELSE "SELF"
      [] OTHER          -> "SELF"

Judge(r) ==
    CASE r.law = "output"     -> IF r.rawOk # "yes" THEN "Html.raw-region-not-verbatim" ELSE Accept(r.events, 1, << >>)
      [] r.law = "text-image" -> IF r.image = TextImage(r.cls, r.dq, r.sq) THEN "ok" ELSE "Html.escape-text-" \o r.cls
      [] r.law = "url-image"  -> IF r.unsafe = "" THEN "ok" ELSE "Html.escape-url-" \o r.unsafe
      [] r.law = "homomorphic" -> IF r.whole = r.parts THEN "ok" ELSE "Html.escape-not-characterwise"
      [] OTHER -> "unknown-law"

Recs == ndJsonDeserialize(IOEnv.TRACE_FILE)
VARIABLES tid, verdict
Init == tid \in 1..Len(Recs) /\ verdict = Judge(Recs[tid])
Next == UNCHANGED <<tid, verdict>>
Report == verdict = "ok" \/ PrintT(ToJson([tid |-> tid, verdict |-> verdict]))
=============================================================================
