CONSTANTS
  Alphabet = {"a"}
  MaxLen = 0
  RawAlphabet = {"a"}
  RawMaxLen = 1
  TailAlphabet <- K2
  TailMaxLen = 5
SPECIFICATION LSpec
INVARIANT NextInRange
INVARIANT LExport
CHECK_DEADLOCK FALSE
