-------------------------------- MODULE Wrap --------------------------------
(***************************************************************************)
(* C10: reflowing a paragraph to a maximum line length.                    *)
(*                                                                         *)
(* Part 1 - the line filler.  A paragraph is a sequence of items           *)
(* [len, hard]: an unbreakable word of that length (glue such as           *)
(* delimiters, destinations and a hard-break marker is already inside the  *)
(* word), followed by a hard line break when hard is TRUE.                 *)
(* Property tier (over any layout `lines`, a sequence of sequences of      *)
(* item indexes):                                                          *)
(*   Preserved   the words appear once each, in order                      *)
(*   HardKept    a word followed by a hard break ends its line             *)
(*   Bound       a line holding two or more words is no longer than the    *)
(*               budget                                                    *)
(* Implementation tier: the greedy filler, one action per word, shaped     *)
(* like MarkdownRenderer.fragments_to_lines (first word of a line always   *)
(* accepted, `len(cur + " " + w) <= budget`, a hard break flushes).        *)
(* TLC checks the filler against the three clauses for every paragraph     *)
(* and budget within the bounds, and that filling is idempotent.           *)
(*                                                                         *)
(* Part 2 - documents.  A paragraph of spelled words (plain, emphasised,   *)
(* code span, link, link with a space inside an angle-bracket destination, *)
(* image) under a path of containers (block quote, list items of content   *)
(* offset 2, 3, 4).  The specification writes the Markdown source itself   *)
(* and exports it with the word list and the prefix width; the harness     *)
(* reflows it with the real renderer for the chosen L and TLC judges       *)
(* Laws!ReflowLaw on what came out.                                        *)
(***************************************************************************)
EXTENDS Naturals, Integers, Sequences, FiniteSets, TLC, Json

CONSTANTS MaxItems, MaxLen, Budgets, Mode    \* Mode = "filler" | "docs"
CONSTANTS MaxPath, Templates

---------------------------------------------------------------------------
(* property tier *)
RECURSIVE FlattenLines(_)
FlattenLines(ls) == IF ls = << >> THEN << >> ELSE Head(ls) \o FlattenLines(Tail(ls))

LineLen(items, line) == IF line = << >> THEN 0
                        ELSE LET S == {i \in DOMAIN line : TRUE} IN
                             (Len(line) - 1) + (LET RECURSIVE Sum(_)
                                                    Sum(k) == IF k = 0 THEN 0 ELSE items[line[k]].len + Sum(k - 1)
                                                IN Sum(Len(line)))

Preserved(items, ls) == FlattenLines(ls) = [i \in 1..Len(items) |-> i]
HardKept(items, ls)  == \A k \in DOMAIN ls : \A j \in DOMAIN ls[k] : items[ls[k][j]].hard => j = Len(ls[k])
Bound(items, ls, b)  == \A k \in DOMAIN ls : Len(ls[k]) >= 2 => LineLen(items, ls[k]) <= b
NoEmptyLine(ls)      == \A k \in DOMAIN ls : ls[k] # << >>

---------------------------------------------------------------------------
(* implementation tier: the greedy filler *)
VARIABLES items, budget, pos, cur, lines, phase,
          path, L                                  \* part 2 only
vars == <<items, budget, pos, cur, lines, phase, path, L>>

ItemSeqs == UNION {[1..n -> [len : 1..MaxLen, hard : BOOLEAN]] : n \in 1..MaxItems}

Fits(line, w) == LineLen(items, line) + 1 + items[w].len <= budget

Place ==
    /\ phase = "fill"
    /\ IF pos > Len(items)
       THEN /\ lines' = IF cur = << >> THEN lines ELSE Append(lines, cur)
            /\ cur' = << >> /\ phase' = "done" /\ UNCHANGED pos
       ELSE LET placed == IF cur = << >> THEN <<pos>>
                          ELSE IF Fits(cur, pos) THEN Append(cur, pos) ELSE <<pos>>
                flushed == IF cur # << >> /\ ~Fits(cur, pos) THEN Append(lines, cur) ELSE lines IN
            /\ IF items[pos].hard
               THEN lines' = Append(flushed, placed) /\ cur' = << >>
               ELSE lines' = flushed /\ cur' = placed
            /\ pos' = pos + 1 /\ UNCHANGED phase
    /\ UNCHANGED <<items, budget, path, L>>

(* the same filler as a function, to state idempotence *)
RECURSIVE Greedy(_, _, _, _, _)
Greedy(its, b, k, c, ls) ==
    IF k > Len(its) THEN (IF c = << >> THEN ls ELSE Append(ls, c))
    ELSE LET fits == c # << >> /\ LineLen(its, c) + 1 + its[k].len <= b
             placed == IF c = << >> \/ fits THEN Append(c, k) ELSE <<k>>
             flushed == IF c # << >> /\ ~fits THEN Append(ls, c) ELSE ls IN
         IF its[k].hard THEN Greedy(its, b, k + 1, << >>, Append(flushed, placed))
         ELSE Greedy(its, b, k + 1, placed, flushed)

(* reading the laid-out text again: a line end is a soft break unless the line's last word carries a hard break *)
Reread(its, ls) == its
Idempotent(its, b) == Greedy(Reread(its, Greedy(its, b, 1, << >>, << >>)), b, 1, << >>, << >>) = Greedy(its, b, 1, << >>, << >>)

---------------------------------------------------------------------------
(* part 2: documents *)
Letters == <<"a", "b", "c", "d", "e", "f">>
Rep(ch, n) == IF n = 1 THEN ch ELSE IF n = 2 THEN ch \o ch ELSE ch \o ch \o ch

(* Templates is a subset of {"plain1", "plain3", "em", "code", "link", "angle", "image"} *)
Spell(t, ch) ==
    CASE t = "plain1" -> ch
      [] t = "plain3" -> Rep(ch, 3)
      [] t = "em"     -> "*" \o Rep(ch, 2) \o "*"
      [] t = "code"   -> "`" \o ch \o "`"
      [] t = "link"   -> "[" \o ch \o "](/u)"
      [] t = "angle"  -> "[" \o ch \o "](<x y>)"
      [] t = "image"  -> "![" \o ch \o "](/i)"
      (* the words of a link reference definition: [label words]: destination "title words" *)
      [] t = "dopen"  -> "[" \o ch
      [] t = "dclose" -> ch \o "]:"
      [] t = "dboth"  -> "[" \o ch \o "]:"
      [] t = "ddest"  -> "/u"
      [] t = "dangle" -> "<x y>"
      [] t = "topen"  -> "\"" \o ch
      [] t = "tclose" -> ch \o "\""
      [] t = "tboth"  -> "'" \o Rep(ch, 2) \o "'"

Kinds == {"q", "b", "o", "w"}
First(k) == CASE k = "q" -> "> " [] k = "b" -> "- " [] k = "o" -> "1. " [] k = "w" -> "-   "
Rest(k)  == CASE k = "q" -> "> " [] k = "b" -> "  " [] k = "o" -> "   " [] k = "w" -> "    "
Width(k) == Len(First(k))

RECURSIVE CatFirst(_), CatRest(_), SumW(_)
CatFirst(p) == IF p = << >> THEN "" ELSE First(Head(p)) \o CatFirst(Tail(p))
CatRest(p)  == IF p = << >> THEN "" ELSE Rest(Head(p)) \o CatRest(Tail(p))
SumW(p) == IF p = << >> THEN 0 ELSE Width(Head(p)) + SumW(Tail(p))

Paths == UNION {[1..n -> Kinds] : n \in 0..MaxPath}
DocItems == UNION {[1..n -> [t : Templates, hard : BOOLEAN]] : n \in 1..MaxItems}

(* Mode = "defs": the document is one link reference definition (its label, destination and title are laid out by the same
   filler: every space between these words is breakable, the space inside an angle-bracket destination is not) *)
DefSeq(ts) == [i \in DOMAIN ts |-> [t |-> ts[i], hard |-> FALSE]]
DefItems == {DefSeq(<<"dboth", "ddest">>), DefSeq(<<"dopen", "dclose", "ddest">>), DefSeq(<<"dboth", "ddest", "tboth">>),
             DefSeq(<<"dopen", "dclose", "ddest", "topen", "tclose">>), DefSeq(<<"dopen", "dclose", "dangle", "topen", "tclose">>),
             DefSeq(<<"dboth", "dangle", "topen", "plain3", "tclose">>), DefSeq(<<"dopen", "plain3", "dclose", "ddest", "tboth">>)}

WordOf(its, i) == Spell(its[i].t, Letters[i])

(* the source: one line per hard-break segment *)
RECURSIVE Source(_, _, _, _)
Source(its, p, i, atLineStart) ==
    IF i > Len(its) THEN "\n"
    ELSE (IF atLineStart THEN (IF i = 1 THEN CatFirst(p) ELSE CatRest(p)) ELSE " ")
         \o WordOf(its, i)
         \o (IF its[i].hard /\ i < Len(its) THEN "\\\n" \o Source(its, p, i + 1, TRUE)
             ELSE Source(its, p, i + 1, FALSE))

(* Mode = "items": a list of two items under the container path; the first item is the single word "x", the second one holds the
   paragraph and has a WIDER content offset than the first ("9." / "10.", or a wider gap behind the bullet): every item's lines
   are laid out within the budget left by its own offset.  budget (unused otherwise) selects the variant. *)
RECURSIVE SourceWith(_, _, _, _, _)
SourceWith(its, fp, rp, i, atLineStart) ==
    IF i > Len(its) THEN "\n"
    ELSE (IF atLineStart THEN (IF i = 1 THEN fp ELSE rp) ELSE " ")
         \o WordOf(its, i)
         \o (IF its[i].hard /\ i < Len(its) THEN "\\\n" \o SourceWith(its, fp, rp, i + 1, TRUE)
             ELSE SourceWith(its, fp, rp, i + 1, FALSE))
M1(v) == IF v = 1 THEN "9. " ELSE "- "
M2(v) == IF v = 1 THEN "10. " ELSE "-    "
Blanks(n) == SubSeq("          ", 1, n)
ItemsSource(its, p, v) == CatFirst(p) \o M1(v) \o "x\n" \o SourceWith(its, CatRest(p) \o M2(v), CatRest(p) \o Blanks(Len(M2(v))), 1, TRUE)

---------------------------------------------------------------------------
Init ==
    IF Mode = "filler"
    THEN /\ items \in {s \in ItemSeqs : ~s[Len(s)].hard}
         /\ budget \in Budgets
         /\ pos = 1 /\ cur = << >> /\ lines = << >> /\ phase = "fill" /\ path = << >> /\ L = 0
    ELSE /\ items \in (IF Mode = "defs" THEN DefItems ELSE {s \in DocItems : ~s[Len(s)].hard})
         /\ path \in Paths
         /\ L = 0          \* the harness reflows every exported document for each L of its list
         /\ budget \in (IF Mode = "items" THEN {1, 2} ELSE {0}) /\ pos = 1 /\ cur = << >> /\ lines = << >> /\ phase = "doc"

Next == Place

FillerCorrect == (Mode = "filler" /\ phase = "done") =>
    /\ Preserved(items, lines) /\ HardKept(items, lines) /\ Bound(items, lines, budget) /\ NoEmptyLine(lines)
    /\ lines = Greedy(items, budget, 1, << >>, << >>)
    /\ Idempotent(items, budget)

ExportFiller == (Mode = "filler" /\ phase = "done") =>
    PrintT(ToJson([items |-> items, budget |-> budget, lines |-> lines]))

ExportItems == (Mode = "items") =>
    PrintT(ToJson([src |-> ItemsSource(items, path, budget), words |-> [i \in DOMAIN items |-> WordOf(items, i)],
                   hard |-> [i \in DOMAIN items |-> IF items[i].hard THEN "yes" ELSE "no"],
                   W |-> SumW(path) + Len(M2(budget)), path |-> path, skip |-> 1]))

ExportDoc == (Mode \in {"docs", "defs"}) =>
    PrintT(ToJson([src |-> Source(items, path, 1, TRUE), words |-> [i \in DOMAIN items |-> WordOf(items, i)],
                   hard |-> [i \in DOMAIN items |-> IF items[i].hard THEN "yes" ELSE "no"],
                   W |-> SumW(path), path |-> path]))
=============================================================================
