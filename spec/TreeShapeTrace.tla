--------------------------- MODULE TreeShapeTrace ---------------------------
EXTENDS TreeShape, Json, IOUtils
Recs == ndJsonDeserialize(IOEnv.TRACE_FILE)
VARIABLES tid, verdict
Init == tid \in 1..Len(Recs) /\ verdict = Judge(Recs[tid])
Next == UNCHANGED <<tid, verdict>>
Report == verdict = "ok" \/ PrintT(ToJson([tid |-> tid, verdict |-> verdict]))
=============================================================================
