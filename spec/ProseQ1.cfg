CONSTANTS
  Pool = "all"
  MaxLines = 1
  MaxPerLine = 2
  MaxLexemes = 0
INIT Init
NEXT Next
INVARIANT TypeOK
INVARIANT Export
CHECK_DEADLOCK FALSE
