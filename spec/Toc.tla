-------------------------------- MODULE Toc --------------------------------
(***************************************************************************)
(* C19: the table of contents of the TOC renderer.                         *)
(*                                                                         *)
(* A document is a sequence of headings; heading i has a level and one of  *)
(* six variants that fix its title word, its placement and its spelling:   *)
(*   v1 plain title, top level, ATX            v4 plain, in a list item, ATX *)
(*   v2 title containing "x", top level, setext (levels 1-2, else ATX)     *)
(*   v3 title starting with "b", in a block quote, ATX                     *)
(*   v5 title containing "x", top level, ATX with closing hashes           *)
(*   v6 title starting with "b", in a list item, setext (levels 1-2)       *)
(*   v8 plain title, top level, setext with the underline indented by two *)
(*   v7 the same plain title whatever the position, top level, ATX (two    *)
(*      headings of one document may carry the same text at different      *)
(*      levels: whether a heading qualifies is decided per heading)        *)
(* The specification writes the Markdown source itself.                    *)
(*                                                                         *)
(* Property tier: Entries(cfg) = the qualifying headings in document order *)
(* (level <= depth, level 1 left out when omit_title, no filter matches),  *)
(* each with its parent = the nearest earlier entry of smaller level.      *)
(* Implementation tier: TocRenderer.toc writes one "- title" line per      *)
(* entry indented by 4 * (level - 1 [- 1 when omit_title]) and lets the    *)
(* list reader nest them by indentation; TLC checks that nesting by        *)
(* indentation yields the property-tier parents whenever the qualifying    *)
(* headings form an outline whose first entry has indentation 0 (the       *)
(* domain of the property).                                                *)
(***************************************************************************)
EXTENDS Naturals, Sequences, FiniteSets, TLC, Json

CONSTANTS MaxHeadings, MaxLevel, VariantSet

VARIABLES levels, variants, phase
vars == <<levels, variants, phase>>

Variants == VariantSet      \* subset of 1..6
Word(i) == <<"one", "two", "three", "four", "five", "six">>[i]
Title(i, v) == CASE v \in {1, 4} -> Word(i) \o " plain"
                 [] v = 7 -> "same title"
                 [] v = 8 -> Word(i) \o " under"
                 [] v \in {2, 5} -> "ex" \o Word(i) \o " box"
                 [] v \in {3, 6} -> "b" \o Word(i) \o " word"
HasX(v)    == v \in {2, 5}
StartsB(v) == v \in {3, 6}

Hashes(n) == SubSeq("######", 1, n)
Prefix(v) == CASE v = 3 -> "> " [] v \in {4, 6} -> "- " [] OTHER -> ""
Cont(v)   == CASE v = 3 -> "> " [] v \in {4, 6} -> "  " [] OTHER -> ""
Setext(v, lvl) == v \in {2, 6, 8} /\ lvl <= 2

HeadingSrc(i, v, lvl) ==
    IF Setext(v, lvl)
    THEN Prefix(v) \o Title(i, v) \o "\n" \o Cont(v) \o (IF v = 8 THEN "  " ELSE "") \o (IF lvl = 1 THEN "===" ELSE "---") \o "\n"      \* (v8: the underline is indented)
    ELSE Prefix(v) \o Hashes(lvl) \o " " \o Title(i, v) \o (IF v = 5 THEN " ##" ELSE "") \o "\n"

RECURSIVE Src(_, _, _)
Src(ls, vs, i) ==
    IF i > Len(ls) THEN ""
    ELSE HeadingSrc(i, vs[i], ls[i]) \o "\n" \o (IF i % 2 = 1 THEN "some text\n\n" ELSE "") \o Src(ls, vs, i + 1)

---------------------------------------------------------------------------
Filters == {"none", "has-x", "starts-b"}
Configs == [depth : 1..6, omit : BOOLEAN, filter : Filters]

Filtered(cfg, v) == (cfg.filter = "has-x" /\ HasX(v)) \/ (cfg.filter = "starts-b" /\ StartsB(v))
Qualifies(cfg, lvl, v) == lvl <= cfg.depth /\ ~(cfg.omit /\ lvl = 1) /\ ~Filtered(cfg, v)

QIdx(cfg) == {i \in DOMAIN levels : Qualifies(cfg, levels[i], variants[i])}
SetToSeq(S) == [k \in 1..Cardinality(S) |-> CHOOSE x \in S : Cardinality({y \in S : y < x}) = k - 1]
QSeq(cfg) == SetToSeq(QIdx(cfg))

(* property tier: parent = nearest earlier entry of smaller level (0 = top) *)
ParentByLevel(q, k) ==
    LET C == {j \in 1..(k - 1) : levels[q[j]] < levels[q[k]]} IN
    IF C = {} THEN 0 ELSE CHOOSE j \in C : \A j2 \in C : j2 <= j

(* implementation tier: indentation written by toc, parent = nearest earlier line with smaller indentation *)
Indent(cfg, lvl) == 4 * (lvl - 1 - (IF cfg.omit THEN 1 ELSE 0))
ParentByIndent(cfg, q, k) ==
    LET C == {j \in 1..(k - 1) : Indent(cfg, levels[q[j]]) < Indent(cfg, levels[q[k]])} IN
    IF C = {} THEN 0 ELSE CHOOSE j \in C : \A j2 \in C : j2 <= j

(* the property's domain, read on the qualifying headings *)
InDomain(cfg) ==
    LET q == QSeq(cfg) IN
    /\ Len(q) >= 1
    /\ Indent(cfg, levels[q[1]]) = 0
    /\ \A k \in 2..Len(q) : levels[q[k]] <= levels[q[k - 1]] + 1 /\ levels[q[k]] >= levels[q[1]]

Entries(cfg) == LET q == QSeq(cfg) IN [k \in DOMAIN q |-> [title |-> Title(q[k], variants[q[k]]), parent |-> ParentByLevel(q, k)]]

---------------------------------------------------------------------------
Outline(ls) == \A i \in 2..Len(ls) : ls[i] <= ls[i - 1] + 1 /\ ls[i] >= ls[1]

Init ==
    /\ levels \in {ls \in UNION {[1..n -> 1..MaxLevel] : n \in 1..MaxHeadings} : Outline(ls)}
    /\ variants \in UNION {[1..n -> Variants] : n \in 1..MaxHeadings}
    /\ Len(variants) = Len(levels)
    /\ phase = "written"
Next == UNCHANGED vars

(* design-level: within the domain, nesting by indentation is nesting by level *)
IndentNestingIsLevelNesting ==
    \A cfg \in Configs : InDomain(cfg) =>
        LET q == QSeq(cfg) IN \A k \in DOMAIN q : ParentByIndent(cfg, q, k) = ParentByLevel(q, k)

Export ==
    PrintT(ToJson([src |-> Src(levels, variants, 1), levels |-> levels, variants |-> variants,
                   cases |-> {[depth |-> cfg.depth, omit |-> IF cfg.omit THEN "yes" ELSE "no", filter |-> cfg.filter, entries |-> Entries(cfg)] :
                                cfg \in {c \in Configs : InDomain(c)}}]))
=============================================================================
