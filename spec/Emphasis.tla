------------------------------ MODULE Emphasis ------------------------------
(***************************************************************************)
(* C06: the delimiter-run algorithm of CommonMark 0.30 (section 6.2,       *)
(* "An algorithm for parsing nested emphasis and links", procedure         *)
(* process emphasis), over a class alphabet:                               *)
(*     "a" any character that is neither whitespace nor punctuation        *)
(*     " " Unicode whitespace          "." punctuation other than * and _  *)
(*     "*" and "_" the two delimiter characters (both are punctuation)     *)
(*                                                                         *)
(* Property tier.  Opener bottoms are deliberately absent: a bottom is     *)
(* indexed by the closer's (character, can-open, original length mod 3),   *)
(* which is all the match predicate depends on besides invariant facts of  *)
(* the openers, so it only prunes searches that would fail.                *)
(*                                                                         *)
(* The input is chosen in Init; every later step is deterministic.  When   *)
(* the machine is done the result is exported as a token sequence:         *)
(*   p > 0: the character at position p;  -1 <em>  -2 </em>                *)
(*   -3 <strong>  -4 </strong>                                             *)
(***************************************************************************)
EXTENDS Naturals, Integers, Sequences, FiniteSets, TLC, Json, IOUtils

CONSTANTS Alphabet, MaxLen

VARIABLES input, stack, cur, matches, phase
vars == <<input, stack, cur, matches, phase>>

IsWs(c)    == c = " "
IsPunct(c) == c \in {".", "*", "_"}
IsDelim(c) == c \in {"*", "_"}

(* the beginning and the end of the line count as whitespace *)
Before(s, p) == IF p <= 1 THEN " " ELSE s[p - 1]
After(s, p)  == IF p >= Len(s) THEN " " ELSE s[p + 1]

LeftFlanking(s, b, e) ==
    /\ ~IsWs(After(s, e))
    /\ (~IsPunct(After(s, e)) \/ IsWs(Before(s, b)) \/ IsPunct(Before(s, b)))
RightFlanking(s, b, e) ==
    /\ ~IsWs(Before(s, b))
    /\ (~IsPunct(Before(s, b)) \/ IsWs(After(s, e)) \/ IsPunct(After(s, e)))

CanOpen(s, b, e) ==
    IF s[b] = "*" THEN LeftFlanking(s, b, e)
    ELSE LeftFlanking(s, b, e) /\ (~RightFlanking(s, b, e) \/ IsPunct(Before(s, b)))
CanClose(s, b, e) ==
    IF s[b] = "*" THEN RightFlanking(s, b, e)
    ELSE RightFlanking(s, b, e) /\ (~LeftFlanking(s, b, e) \/ IsPunct(After(s, e)))

(* maximal runs of one delimiter character *)
RunStarts(s) == {p \in 1..Len(s) : IsDelim(s[p]) /\ (p = 1 \/ s[p - 1] # s[p])}
RunEnd(s, b) == CHOOSE e \in b..Len(s) : (\A q \in b..e : s[q] = s[b]) /\ (e = Len(s) \/ s[e + 1] # s[b])

Run(s, b) == LET e == RunEnd(s, b) IN
    [ch |-> s[b], s |-> b, e |-> e, orig |-> e - b + 1, open |-> CanOpen(s, b, e), close |-> CanClose(s, b, e)]

SetToSeq(S) == [i \in 1..Cardinality(S) |-> CHOOSE x \in S : Cardinality({y \in S : y < x}) = i - 1]
Runs(s) == LET st == SetToSeq(RunStarts(s)) IN [i \in DOMAIN st |-> Run(s, st[i])]

Num(d) == d.e - d.s + 1

(* rule of three, on original run lengths *)
Odd(o, c)     == (c.open \/ o.close) /\ (o.orig + c.orig) % 3 = 0 /\ ~(o.orig % 3 = 0 /\ c.orig % 3 = 0)
Matches(o, c) == o.open /\ o.ch = c.ch /\ ~Odd(o, c)

Strings(n) == [1..n -> Alphabet]

(* heading content is stripped, and a line's ends count as whitespace anyway: *)
(* only strings that neither start nor end with whitespace are enumerated     *)
Proper(s) == Len(s) = 0 \/ (~IsWs(s[1]) /\ ~IsWs(s[Len(s)]))

InShard(s) == LET p == IOEnv.SHARD IN
    IF p = "-" THEN TRUE
    ELSE IF p = "" THEN Len(s) < 2
    ELSE Len(s) >= 2 /\ s[1] = SubSeq(p, 1, 1) /\ s[2] = SubSeq(p, 2, 2)

(* the strings of one shard, built from the shard's two-character prefix (TLC does not enumerate sets of more than a million
   elements, and all strings up to length 9 over five characters are two millions) *)
ShardStrings ==
    LET p == IOEnv.SHARD IN
    IF p = "-" THEN UNION {Strings(n) : n \in 0..MaxLen}
    ELSE IF p = "" THEN UNION {Strings(n) : n \in 0..(IF MaxLen < 1 THEN MaxLen ELSE 1)}
    ELSE {<<SubSeq(p, 1, 1), SubSeq(p, 2, 2)>> \o t : t \in UNION {Strings(n) : n \in 0..(MaxLen - 2)}}

Init ==
    /\ input \in {s \in ShardStrings : Proper(s) /\ InShard(s)}
    /\ stack = Runs(input)
    /\ cur = 1
    /\ matches = {}
    /\ phase = "run"

RemoveAt(sq, k) == SubSeq(sq, 1, k - 1) \o SubSeq(sq, k + 1, Len(sq))

Step ==
    /\ phase = "run"
    /\ LET closers == {k \in cur..Len(stack) : stack[k].close} IN
       IF closers = {}
       THEN phase' = "done" /\ UNCHANGED <<input, stack, cur, matches>>
       ELSE LET k == CHOOSE x \in closers : \A y \in closers : x <= y
                c == stack[k]
                openers == {j \in 1..(k - 1) : Matches(stack[j], c)} IN
            IF openers = {}
            THEN /\ IF c.open THEN stack' = stack /\ cur' = k + 1
                              ELSE stack' = RemoveAt(stack, k) /\ cur' = k
                 /\ UNCHANGED <<input, matches, phase>>
            ELSE LET j == CHOOSE x \in openers : \A y \in openers : x >= y
                     o == stack[j]
                     w == IF Num(o) >= 2 /\ Num(c) >= 2 THEN 2 ELSE 1
                     o2 == [o EXCEPT !.e = o.e - w]
                     c2 == [c EXCEPT !.s = c.s + w]
                     keepO == IF Num(o2) > 0 THEN <<o2>> ELSE <<>>
                     keepC == IF Num(c2) > 0 THEN <<c2>> ELSE <<>> IN
                 /\ matches' = matches \cup {[os |-> o.e - w + 1, cs |-> c.s, w |-> w]}
                 /\ stack' = SubSeq(stack, 1, j - 1) \o keepO \o keepC \o SubSeq(stack, k + 1, Len(stack))
                 /\ cur' = j + Len(keepO)
                 /\ UNCHANGED <<input, phase>>

Next == Step

---------------------------------------------------------------------------
(* result as a token sequence *)
RECURSIVE Out(_, _, _)
Out(s, ms, p) ==
    IF p > Len(s) THEN <<>>
    ELSE IF \E m \in ms : m.os = p
         THEN LET m == CHOOSE x \in ms : x.os = p IN <<IF m.w = 2 THEN -3 ELSE -1>> \o Out(s, ms, p + m.w)
    ELSE IF \E m \in ms : m.cs = p
         THEN LET m == CHOOSE x \in ms : x.cs = p IN <<IF m.w = 2 THEN -4 ELSE -2>> \o Out(s, ms, p + m.w)
    ELSE <<p>> \o Out(s, ms, p + 1)

RECURSIVE Flat(_)
Flat(s) == IF s = <<>> THEN "" ELSE Head(s) \o Flat(Tail(s))

---------------------------------------------------------------------------
(* properties of the algorithm itself, checked on every reachable state *)
TypeOK ==
    /\ cur \in 1..(Len(stack) + 1)
    /\ \A k \in DOMAIN stack : Num(stack[k]) >= 1 /\ stack[k].s >= 1 /\ stack[k].e <= Len(input)

(* pieces used by matches never overlap, and matches are properly nested (a laminar family) *)
Span(m) == m.os..(m.cs + m.w - 1)
Laminar == \A m1, m2 \in matches :
    m1 = m2 \/ Span(m1) \cap Span(m2) = {} \/ Span(m1) \subseteq (m2.os + m2.w)..(m2.cs - 1)
            \/ Span(m2) \subseteq (m1.os + m1.w)..(m1.cs - 1)

(* an emphasis never has empty content *)
NonEmpty == \A m \in matches : m.cs > m.os + m.w

Export == phase = "done" => PrintT(ToJson([input |-> Flat(input), out |-> Out(input, matches, 1)]))
=============================================================================
