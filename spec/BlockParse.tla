----------------------------- MODULE BlockParse -----------------------------
(***************************************************************************)
(* The block structure of CommonMark 0.30, read line by line.              *)
(*                                                                         *)
(* DocGen.tla WRITES documents from trees; this module READS arbitrary     *)
(* line sequences over a line alphabet and builds the tree the             *)
(* specification assigns to them (section "Appendix: a parsing strategy",  *)
(* phase 1, and the rules of sections 4 and 5 it implements): one action   *)
(* per input line -                                                        *)
(*   1. the open containers are matched against the line (a block quote    *)
(*      needs its marker, a list item its indentation or a blank line);    *)
(*   2. new blocks are started in the remainder (quote marker, ATX         *)
(*      heading, fence, setext underline, thematic break, list marker,     *)
(*      indented code - in this order of precedence);                      *)
(*   3. if nothing started, containers are left unmatched and the open     *)
(*      leaf is a paragraph, the line is a lazy continuation line;         *)
(*   4. otherwise the unmatched blocks are closed and the text is added to *)
(*      the innermost block (or opens a paragraph).                        *)
(* Covered: paragraphs, ATX and setext headings, thematic breaks, fenced   *)
(* and indented code, HTML blocks (all seven start conditions), block      *)
(* quotes, bullet and ordered lists (tight and loose), blank lines,        *)
(* laziness.  Not covered (lines of the alphabet never use them): tabs,    *)
(* link reference definitions, tables.                                     *)
(*                                                                         *)
(* The state after the last line is the parse.  TLC explores EVERY line    *)
(* sequence up to MaxLines over the alphabet; the harness feeds each to    *)
(* the real parser and compares HTML and (type, line) lists (C03, C13).    *)
(* The laws of C04 and C05 are also stated on the model itself (QuoteLaw,  *)
(* ConcatLaw below) and checked by TLC: they are consequences of the       *)
(* specification, not extra demands.                                       *)
(***************************************************************************)
EXTENDS Naturals, Sequences, FiniteSets, TLC, Json, IOUtils, SequencesExt

CONSTANTS Alphabet,     \* set of lines (strings without tabs and line ends)
          MaxLines

VARIABLES doc, st          \* the lines read so far and the parser state after them: every reachable state is a document with its parse
vars == <<doc, st>>

---------------------------------------------------------------------------
(* strings *)
Ch(s, i) == IF i >= 1 /\ i <= Len(s) THEN SubSeq(s, i, i) ELSE ""
Drop(s, n) == IF n >= Len(s) THEN "" ELSE IF n <= 0 THEN s ELSE SubSeq(s, n + 1, Len(s))
Take(s, n) == IF n >= Len(s) THEN s ELSE IF n <= 0 THEN "" ELSE SubSeq(s, 1, n)
RECURSIVE Run(_, _)
Run(s, c) == IF Ch(s, 1) = c THEN 1 + Run(Drop(s, 1), c) ELSE 0          \* length of the run of c that starts s
LeadSp(s) == Run(s, " ")
IsBlank(s) == LeadSp(s) = Len(s)
LStrip(s) == Drop(s, LeadSp(s))
RECURSIVE RStrip(_)
RStrip(s) == IF s # "" /\ Ch(s, Len(s)) = " " THEN RStrip(Take(s, Len(s) - 1)) ELSE s
Trim(s) == RStrip(LStrip(s))
RECURSIVE TrailRun(_, _)
TrailRun(s, c) == IF s # "" /\ Ch(s, Len(s)) = c THEN 1 + TrailRun(Take(s, Len(s) - 1), c) ELSE 0
Count(s, c) == Cardinality({i \in 1..Len(s) : Ch(s, i) = c})
OnlyOf(s, cs) == \A i \in 1..Len(s) : Ch(s, i) \in cs
DigitChars == {"0", "1", "2", "3", "4", "5", "6", "7", "8", "9"}
RECURSIVE DigitRun(_)
DigitRun(s) == IF Ch(s, 1) \in DigitChars THEN 1 + DigitRun(Drop(s, 1)) ELSE 0
DigitVal(c) == CASE c = "0" -> 0 [] c = "1" -> 1 [] c = "2" -> 2 [] c = "3" -> 3 [] c = "4" -> 4 [] c = "5" -> 5 [] c = "6" -> 6
                 [] c = "7" -> 7 [] c = "8" -> 8 [] OTHER -> 9
RECURSIVE ToNat(_)
ToNat(s) == IF s = "" THEN 0 ELSE ToNat(Take(s, Len(s) - 1)) * 10 + DigitVal(Ch(s, Len(s)))
RECURSIVE NatStr(_)
NatStr(n) == IF n < 10 THEN SubSeq("0123456789", n + 1, n + 1) ELSE NatStr(n \div 10) \o SubSeq("0123456789", (n % 10) + 1, (n % 10) + 1)
RECURSIVE Join(_, _)
Join(ss, sep) == IF ss = << >> THEN "" ELSE IF Len(ss) = 1 THEN ss[1] ELSE ss[1] \o sep \o Join(Tail(ss), sep)
RECURSIVE Esc(_)
Esc(s) == IF s = "" THEN ""
          ELSE LET c == Ch(s, 1) IN
               (CASE c = "&" -> "&amp;" [] c = "<" -> "&lt;" [] c = ">" -> "&gt;" [] c = "\"" -> "&quot;" [] OTHER -> c) \o Esc(Drop(s, 1))

UpperChars == "ABCDEFGHIJKLMNOPQRSTUVWXYZ"
LowerChars == "abcdefghijklmnopqrstuvwxyz"
IsLetter(c) == c # "" /\ \E i \in 1..26 : Ch(UpperChars, i) = c \/ Ch(LowerChars, i) = c
LowerCh(c) == IF \E i \in 1..26 : Ch(UpperChars, i) = c THEN Ch(LowerChars, CHOOSE i \in 1..26 : Ch(UpperChars, i) = c) ELSE c
RECURSIVE Lower(_)
Lower(s) == IF s = "" THEN "" ELSE LowerCh(Ch(s, 1)) \o Lower(Drop(s, 1))
StartsWith(s, p) == Take(s, Len(p)) = p
HasSub(s, p) == \E i \in 1..(Len(s) - Len(p) + 1) : SubSeq(s, i, i + Len(p) - 1) = p

---------------------------------------------------------------------------
(* recognisers for the remainder r of a line (behind the matched containers) *)
NotIndented(r) == LeadSp(r) <= 3

IsQuoteMarker(r) == NotIndented(r) /\ Ch(r, LeadSp(r) + 1) = ">"
AfterQuoteMarker(r) == LET r1 == Drop(r, LeadSp(r) + 1) IN IF Ch(r1, 1) = " " THEN Drop(r1, 1) ELSE r1

IsAtx(r) == LET t == LStrip(r) n == Run(t, "#") IN
            NotIndented(r) /\ n >= 1 /\ n <= 6 /\ (Len(t) = n \/ Ch(t, n + 1) = " ")
AtxLevel(r) == Run(LStrip(r), "#")
AtxText(r) == LET t == LStrip(r)
                  c1 == Trim(Drop(t, Run(t, "#")))
                  k == TrailRun(c1, "#") IN
              IF k = Len(c1) THEN ""                                               \* only a closing sequence
              ELSE IF k > 0 /\ Ch(c1, Len(c1) - k) = " " THEN RStrip(Take(c1, Len(c1) - k))
              ELSE c1

IsFenceOpen(r) == LET t == LStrip(r) c == Ch(t, 1) n == Run(t, c) IN
                  NotIndented(r) /\ c \in {"`", "~"} /\ n >= 3 /\ (c = "`" => Count(Drop(t, n), "`") = 0)
FenceOf(r) == LET t == LStrip(r) c == Ch(t, 1) n == Run(t, c) IN [ch |-> c, n |-> n, off |-> LeadSp(r), info |-> Trim(Drop(t, n))]
IsFenceClose(r, f) == LET t == LStrip(r) n == Run(t, f.ch) IN NotIndented(r) /\ n >= f.n /\ IsBlank(Drop(t, n))

(* HTML blocks (section 4.6): start conditions 1-7; 0 = none.  Tabs do not occur in the alphabets. *)
LiteralTags == {"pre", "script", "style", "textarea"}
BlockTags == {"address", "article", "aside", "base", "basefont", "blockquote", "body", "caption", "center", "col", "colgroup", "dd", "details",
              "dialog", "dir", "div", "dl", "dt", "fieldset", "figcaption", "figure", "footer", "form", "frame", "frameset", "h1", "h2", "h3",
              "h4", "h5", "h6", "head", "header", "hr", "html", "iframe", "legend", "li", "link", "main", "menu", "menuitem", "nav", "noframes",
              "ol", "optgroup", "option", "p", "param", "section", "source", "summary", "table", "tbody", "td", "tfoot", "th", "thead", "title",
              "tr", "track", "ul"}
IsNameChar(c) == IsLetter(c) \/ c \in DigitChars \/ c = "-"
RECURSIVE NameRun(_)
NameRun(s) == IF IsNameChar(Ch(s, 1)) THEN 1 + NameRun(Drop(s, 1)) ELSE 0
TagName(s) == IF IsLetter(Ch(s, 1)) THEN Take(s, NameRun(s)) ELSE ""             \* the tag name that starts s, "" if none
(* attributes of the forms  name  and  name="value"  (value without a double quote), each after at least one space *)
RECURSIVE AfterAttrs(_)
AfterAttrs(s) ==
    LET sp == LeadSp(s) t == Drop(s, sp) nm == TagName(t) IN
    IF sp = 0 \/ nm = "" THEN s
    ELSE LET u == Drop(t, Len(nm)) IN
         IF StartsWith(u, "=\"") /\ HasSub(Drop(u, 2), "\"")
         THEN LET v == Drop(u, 2) k == CHOOSE i \in 1..Len(v) : Ch(v, i) = "\"" /\ \A j \in 1..(i - 1) : Ch(v, j) # "\"" IN AfterAttrs(Drop(v, k))
         ELSE AfterAttrs(u)
(* length of the open or closing tag that starts s (0 if none) *)
TagLen(s) ==
    IF StartsWith(s, "</") THEN
        LET nm == TagName(Drop(s, 2)) k == 2 + Len(nm) + LeadSp(Drop(s, 2 + Len(nm))) IN
        IF nm # "" /\ Ch(s, k + 1) = ">" THEN k + 1 ELSE 0
    ELSE IF StartsWith(s, "<") THEN
        LET nm == TagName(Drop(s, 1))
            aft == AfterAttrs(Drop(s, 1 + Len(nm)))
            k == Len(s) - Len(aft) + LeadSp(aft) IN
        IF nm = "" THEN 0 ELSE IF Ch(s, k + 1) = ">" THEN k + 1 ELSE IF Ch(s, k + 1) = "/" /\ Ch(s, k + 2) = ">" THEN k + 2 ELSE 0
    ELSE 0
IsCompleteTag(t) == TagLen(t) > 0 /\ IsBlank(Drop(t, TagLen(t)))        \* an open tag or a closing tag, followed by spaces only
(* paragraph text as HTML: complete tags are raw inline HTML, a bracketed label that matches a definition (and is not followed by
   another bracket or a parenthesis) is a shortcut reference link, everything else is escaped (the alphabets hold no other inline syntax).
   D is the sequence of the document's definitions; the first one with the label wins. *)
(* link destinations are written percent-encoded where a character may not stand in a URL (the alphabets only produce these five) *)
RECURSIVE HrefEnc(_)
HrefEnc(u) == IF u = "" THEN "" ELSE LET c == Ch(u, 1) IN
              (CASE c = " " -> "%20" [] c = "[" -> "%5B" [] c = "]" -> "%5D" [] c = "\\" -> "%5C" [] c = "<" -> "%3C" [] OTHER -> Esc(c)) \o HrefEnc(Drop(u, 1))
(* backslash escapes and character references (of the latter the alphabets spell only &amp; and &lt;), resolved in one pass: what a
   backslash escaped begins no reference, and what a reference gave is not read again *)
AsciiPunct == {"!", "\"", "#", "$", "%", "&", "'", "(", ")", "*", "+", ",", "-", ".", "/", ":", ";", "<", "=", ">", "?", "@", "[", "\\", "]", "^", "_", "`", "{", "|", "}", "~"}
RECURSIVE TrailBs(_)
TrailBs(t) == IF t # "" /\ Ch(t, Len(t)) = "\\" THEN 1 + TrailBs(Take(t, Len(t) - 1)) ELSE 0        \* backslashes at the end of a line
RECURSIVE Unescape(_)
Unescape(s) == IF s = "" THEN ""
              ELSE IF Ch(s, 1) = "\\" /\ Ch(s, 2) \in AsciiPunct THEN Ch(s, 2) \o Unescape(Drop(s, 2))
              ELSE IF StartsWith(s, "&amp;") THEN "&" \o Unescape(Drop(s, 5))
              ELSE IF StartsWith(s, "&lt;") THEN "<" \o Unescape(Drop(s, 4))
              ELSE Ch(s, 1) \o Unescape(Drop(s, 1))
RECURSIVE InlineHtml(_, _)
InlineHtml(s, D) ==
    IF s = "" THEN ""
    ELSE IF Ch(s, 1) = "\\" /\ Ch(s, 2) \in AsciiPunct THEN Esc(Ch(s, 2)) \o InlineHtml(Drop(s, 2), D)
    ELSE IF StartsWith(s, "&amp;") THEN "&amp;" \o InlineHtml(Drop(s, 5), D)
    ELSE IF StartsWith(s, "&lt;") THEN "&lt;" \o InlineHtml(Drop(s, 4), D)
    ELSE IF Ch(s, 1) = "<" /\ TagLen(s) > 0 THEN Take(s, TagLen(s)) \o InlineHtml(Drop(s, TagLen(s)), D)
    ELSE IF Ch(s, 1) = "[" THEN
        LET S == {i \in 2..Len(s) : Ch(s, i) \in {"[", "]"}}
            rb == IF S = {} THEN 0 ELSE CHOOSE i \in S : \A j \in S : i <= j
            lab == IF rb > 2 /\ Ch(s, rb) = "]" THEN SubSeq(s, 2, rb - 1) ELSE ""
            C == {i \in DOMAIN D : lab # "" /\ Lower(Trim(D[i].label)) = Lower(Trim(lab))}
            d == IF C = {} THEN 0 ELSE CHOOSE i \in C : \A j \in C : i <= j IN
        IF d > 0 /\ Ch(s, rb + 1) \notin {"[", "("}
        THEN "<a href=\"" \o HrefEnc(D[d].dest) \o "\"" \o (IF D[d].title = "" THEN "" ELSE " title=\"" \o Esc(D[d].title) \o "\"") \o ">"
             \o InlineHtml(lab, << >>) \o "</a>" \o InlineHtml(Drop(s, rb), D)
        ELSE "[" \o InlineHtml(Drop(s, 1), D)
    ELSE Esc(Ch(s, 1)) \o InlineHtml(Drop(s, 1), D)
HtmlType(r) ==
    LET t == LStrip(r) low == Lower(t)
        nm1 == TagName(Drop(low, 1))
        nm6 == IF StartsWith(low, "</") THEN TagName(Drop(low, 2)) ELSE nm1
        after6 == Drop(low, (IF StartsWith(low, "</") THEN 2 ELSE 1) + Len(nm6)) IN
    IF ~NotIndented(r) \/ Ch(t, 1) # "<" THEN 0
    ELSE IF StartsWith(low, "<") /\ nm1 \in LiteralTags /\ Ch(low, 2 + Len(nm1)) \in {"", " ", ">"} THEN 1
    ELSE IF StartsWith(t, "<!--") THEN 2
    ELSE IF StartsWith(t, "<?") THEN 3
    ELSE IF StartsWith(t, "<![CDATA[") THEN 5
    ELSE IF StartsWith(t, "<!") /\ IsLetter(Ch(t, 3)) THEN 4
    ELSE IF nm6 \in BlockTags /\ (after6 = "" \/ Ch(after6, 1) \in {" ", ">"} \/ StartsWith(after6, "/>")) THEN 6
    ELSE IF IsCompleteTag(t) /\ nm6 \notin LiteralTags THEN 7
    ELSE 0
HtmlEnds(ty, line) ==
    LET low == Lower(line) IN
    CASE ty = 1 -> \E nm \in LiteralTags : HasSub(low, "</" \o nm \o ">")
      [] ty = 2 -> HasSub(line, "-->")
      [] ty = 3 -> HasSub(line, "?>")
      [] ty = 4 -> HasSub(line, ">")
      [] ty = 5 -> HasSub(line, "]]>")
      [] OTHER  -> FALSE

IsSetextUnderline(r) == LET t == Trim(r) c == Ch(t, 1) IN NotIndented(r) /\ t # "" /\ c \in {"=", "-"} /\ OnlyOf(t, {c})
SetextLevel(r) == IF Ch(Trim(r), 1) = "=" THEN 1 ELSE 2

IsHr(r) == LET t == LStrip(r) c == Ch(t, 1) IN NotIndented(r) /\ c \in {"-", "*", "_"} /\ OnlyOf(t, {c, " "}) /\ Count(t, c) >= 3

(* list marker: bullet or 1-9 digits with "." or ")", followed by a space or the end of the line.  interrupts = the line
   would otherwise continue a paragraph: then the item must not be empty and an ordered list must start with 1 *)
MarkerLen(t) == IF Ch(t, 1) \in {"-", "+", "*"} THEN 1
                ELSE LET d == DigitRun(t) IN IF d >= 1 /\ d <= 9 /\ Ch(t, d + 1) \in {".", ")"} THEN d + 1 ELSE 0
IsMarker(r, interrupts) ==
    LET t == LStrip(r) ml == MarkerLen(t) after == Drop(t, ml) IN
    /\ NotIndented(r) /\ ml > 0
    /\ (after = "" \/ Ch(after, 1) = " ")
    /\ (interrupts => (~IsBlank(after) /\ (ml = 1 \/ ToNat(Take(t, ml - 1)) = 1)))
MarkerOf(r) ==
    LET t == LStrip(r) ml == MarkerLen(t) after == Drop(t, ml)
        sp == LeadSp(after)
        one == sp >= 5 \/ sp < 1 \/ IsBlank(after)                       \* content starts one column after the marker
        ordered == ml > 1 IN
    [mtype |-> Ch(t, ml), ordered |-> ordered, start |-> IF ordered THEN ToNat(Take(t, ml - 1)) ELSE 0,
     w |-> LeadSp(r) + ml + (IF one THEN 1 ELSE sp),
     rest |-> IF one THEN (IF Ch(after, 1) = " " THEN Drop(after, 1) ELSE after) ELSE Drop(after, sp)]

---------------------------------------------------------------------------
(* link reference definitions (section 4.7).  They are read from the text of a paragraph when it is complete: as many as stand
   at its beginning; what is left is the paragraph (possibly nothing).  c is the paragraph's text, lines joined by "\n".
   A definition: [label]: destination "title" - label without brackets, not blank; between the colon and the destination and
   between the destination and the title whitespace including at most one line end; the title may span lines; nothing but
   spaces may follow on the last line.  If what follows the destination on its line is not a valid title the text is not a
   definition; if the title attempt on the NEXT line fails, the definition ends with the destination's line.
   (Backslash escapes and brackets inside labels do not occur in the alphabets.) *)
IndexFrom(s, c, from) == LET S == {i \in from..Len(s) : Ch(s, i) = c} IN IF S = {} THEN 0 ELSE CHOOSE i \in S : \A j \in S : i <= j
SkipSp(s, i) == i + LeadSp(Drop(s, i - 1))                                    \* first position >= i that holds no space
SkipWs1(s, i) == LET j == SkipSp(s, i) IN IF Ch(s, j) = "\n" THEN SkipSp(s, j + 1) ELSE j      \* spaces, at most one line end, spaces
RECURSIVE NonSpaceRun(_, _)
NonSpaceRun(s, i) == IF i <= Len(s) /\ Ch(s, i) \notin {" ", "\n"} THEN 1 + NonSpaceRun(s, i + 1) ELSE 0
Balanced(t) == Count(t, "(") = Count(t, ")")
NoDef == [ok |-> FALSE, len |-> 0, label |-> "", dest |-> "", title |-> ""]
CloserOf(q) == CASE q = "\"" -> "\"" [] q = "'" -> "'" [] OTHER -> ")"
ParseDef(c) ==
    LET rb == IndexFrom(c, "]", 2)
        label == SubSeq(c, 2, rb - 1)
        d0 == SkipWs1(c, rb + 2)                                             \* start of the destination
        angle == Ch(c, d0) = "<"
        dEnd == IF angle THEN IndexFrom(c, ">", d0 + 1) ELSE d0 + NonSpaceRun(c, d0) - 1
        dest == IF angle THEN SubSeq(c, d0 + 1, dEnd - 1) ELSE SubSeq(c, d0, dEnd)
        destOk == /\ d0 <= Len(c)
                  /\ (IF angle THEN dEnd > 0 /\ Count(dest, "\n") = 0 /\ Count(dest, "<") = 0 ELSE dEnd >= d0 /\ Balanced(dest))
        p == dEnd + 1                                                        \* first position behind the destination
        e1 == SkipSp(c, p)                                                   \* end of the destination's line if only spaces follow
        endsLine == e1 > Len(c) \/ Ch(c, e1) = "\n"
        t0 == SkipWs1(c, p)                                                  \* where a title would start
        q == Ch(c, t0)
        tEnd == IF q \in {"\"", "'", "("} THEN IndexFrom(c, CloserOf(q), t0 + 1) ELSE 0
        e2 == SkipSp(c, tEnd + 1)
        titleOk == /\ t0 > p /\ tEnd > 0                                     \* separated from the destination by whitespace, closed
                   /\ (q = "(" => Count(SubSeq(c, t0 + 1, tEnd - 1), "(") = 0)   \* a title in parentheses holds none unescaped
                   /\ (e2 > Len(c) \/ Ch(c, e2) = "\n")                       \* nothing else on its last line
                   /\ ~HasSub(SubSeq(c, t0, tEnd), "\n\n")
        noTitle == [ok |-> TRUE, len |-> IF e1 > Len(c) THEN Len(c) ELSE e1, label |-> label, dest |-> Unescape(dest), title |-> ""] IN
    IF ~(Ch(c, 1) = "[" /\ rb > 2 /\ Count(label, "[") = 0 /\ Trim(label) # "" /\ Ch(c, rb + 1) = ":" /\ destOk) THEN NoDef
    ELSE IF titleOk THEN [ok |-> TRUE, len |-> IF e2 > Len(c) THEN Len(c) ELSE e2, label |-> label, dest |-> Unescape(dest), title |-> Unescape(SubSeq(c, t0 + 1, tEnd - 1))]
    ELSE IF endsLine THEN noTitle
    ELSE NoDef

(* all definitions at the beginning of a paragraph's text; rest = the lines that remain *)
RECURSIVE DefsOf(_)
DefsOf(c) == LET d == ParseDef(c) IN IF c = "" \/ ~d.ok THEN << >> ELSE <<d>> \o DefsOf(Drop(c, d.len))
RECURSIVE RestAfterDefs(_)
RestAfterDefs(c) == LET d == ParseDef(c) IN IF c = "" \/ ~d.ok THEN c ELSE RestAfterDefs(Drop(c, d.len))
RECURSIVE SplitLines(_)
SplitLines(c) == IF c = "" THEN << >> ELSE LET k == IndexFrom(c, "\n", 1) IN IF k = 0 THEN <<c>> ELSE <<Take(c, k - 1)>> \o SplitLines(Drop(c, k))
ParaText(lines) == RStrip(Join(lines, "\n"))
ParaRestLines(lines) == SplitLines(RestAfterDefs(ParaText(lines)))

---------------------------------------------------------------------------
(* parser state: st = [open, nodes, tip, tags]                             *)
(*   nodes: the tree, node 1 = Document; [t, p, ln, last, lv, text, x]      *)
(*   open:  the open containers, outermost first: [kind, node, w, mtype]   *)
(*          kind in {"quote", "list", "item"}                               *)
(*   tip:   the open leaf block [k, node, f] with k in {"none", "para",     *)
(*          "fence", "icode"}; its parent is the innermost open container   *)
NoFence == [ch |-> "", n |-> 0, off |-> 0, info |-> ""]
NoTip == [k |-> "none", node |-> 0, f |-> NoFence]
Node(t, p, ln, lv, text, x) == [t |-> t, p |-> p, ln |-> ln, last |-> ln, lv |-> lv, text |-> text, x |-> x]
NoX == [mtype |-> "", ordered |-> FALSE, start |-> 0]
Empty == [open |-> << >>, nodes |-> <<Node("Document", 0, 1, 0, << >>, NoX)>>, tip |-> NoTip, tags |-> {}]

TopNode(s) == IF s.open = << >> THEN 1 ELSE s.open[Len(s.open)].node
HasKids(s, n) == \E i \in DOMAIN s.nodes : s.nodes[i].p = n

(* 1. matching the open containers: how many match, and what is left of the line *)
(* rests[k] = what is left of the line behind the k-th container *)
RECURSIVE MatchFrom(_, _, _, _)
MatchFrom(s, k, r, rests) ==
    IF k > Len(s.open) THEN [n |-> Len(s.open), rest |-> r, rests |-> rests]
    ELSE LET f == s.open[k]
             fail == [n |-> k - 1, rest |-> r, rests |-> rests] IN
         CASE f.kind = "quote" -> IF IsQuoteMarker(r) THEN MatchFrom(s, k + 1, AfterQuoteMarker(r), Append(rests, AfterQuoteMarker(r))) ELSE fail
           [] f.kind = "list"  -> MatchFrom(s, k + 1, r, Append(rests, r))
           [] OTHER            -> IF IsBlank(r) THEN (IF HasKids(s, f.node) THEN MatchFrom(s, k + 1, "", Append(rests, "")) ELSE fail)
                                  ELSE IF LeadSp(r) >= f.w THEN MatchFrom(s, k + 1, Drop(r, f.w), Append(rests, Drop(r, f.w)))
                                  ELSE fail

(* Classes of input on which the implementation under test is known to deviate (known_findings.json); the reader tags the
   documents so that the harness can tell a recorded finding from a new one.  They do not change the parse. *)
StartsBlockWhenDeindented(t) == IsQuoteMarker(t) \/ IsAtx(t) \/ IsFenceOpen(t) \/ IsHr(t) \/ IsMarker(t, FALSE) \/ IsSetextUnderline(t)
Indented4(r) == LeadSp(r) >= 4 /\ ~IsBlank(r)
UnmatchedKinds(s, n) == {s.open[k].kind : k \in (n + 1)..Len(s.open)}

(* after a line: every container still open extends to that line *)
Touch(s, L) == [s EXCEPT !.nodes = [i \in DOMAIN s.nodes |->
                    IF \E k \in DOMAIN s.open : s.open[k].node = i THEN [s.nodes[i] EXCEPT !.last = L] ELSE s.nodes[i]]]

(* close the containers above the n-th and the open leaf *)
CloseTo(s, n) == [s EXCEPT !.open = SubSeq(s.open, 1, n), !.tip = NoTip]
(* a list holds only items: anything else closes it *)
PopList(s) == IF s.open # << >> /\ s.open[Len(s.open)].kind = "list" THEN [s EXCEPT !.open = SubSeq(s.open, 1, Len(s.open) - 1)] ELSE s

AddNode(s, nd) == [s EXCEPT !.nodes = Append(s.nodes, nd)]
NewId(s) == Len(s.nodes) + 1

AddLineTo(s, n, txt, L) == [s EXCEPT !.nodes[n].text = Append(s.nodes[n].text, txt), !.nodes[n].last = L]

(* A line that cannot interrupt a paragraph but could start a block (indented code, an ordered list not starting with 1, an empty
   list item, an HTML block of kind 7) below text that consists of complete link reference definitions only: the reference reading
   continues the paragraph (definitions are taken out of it when it is complete); read declaratively the definitions are blocks of
   their own, no paragraph is open and the line starts its block.  Not settled by the specification text: tagged, not judged. *)
AfterDefsOnly(s, r) == IF (LeadSp(r) >= 4 \/ IsMarker(r, FALSE) \/ HtmlType(r) = 7) /\ s.tip.k = "para" /\ RestAfterDefs(ParaText(s.nodes[s.tip.node].text)) = ""
                       THEN {"unsettled-block-start-after-definition"} ELSE {}

(* the text line (nothing started in r): lazy continuation, continuation of the matched paragraph, or a new paragraph *)
TextLine(s, n, r, pm, L, started) ==
    IF ~started /\ n < Len(s.open) /\ ~IsBlank(r) /\ s.tip.k = "para"
    THEN [AddLineTo(s, s.tip.node, LStrip(r), L) EXCEPT !.tags = s.tags \cup {"lazy"}
              \cup (IF \E k \in (n + 1)..Len(s.open) : s.open[k].kind = "quote" /\ s.open[k].ind4 THEN {"lazy-after-indented-quote-content"} ELSE {})
              \cup (IF IsSetextUnderline(r) /\ "item" \in UnmatchedKinds(s, n) THEN {"lazy-line-looks-like-setext-underline"} ELSE {})
              \cup (IF LeadSp(r) >= 4 /\ StartsBlockWhenDeindented(LStrip(r)) THEN {"lazy-indented-line-looks-like-block-start"} ELSE {})
              \cup (IF LeadSp(r) >= 4 THEN {"continuation-line-indented-4"} ELSE {}) \cup AfterDefsOnly(s, r)]
    ELSE IF pm THEN [AddLineTo(s, s.tip.node, LStrip(r), L) EXCEPT !.tags = s.tags \cup (IF LeadSp(r) >= 4 THEN {"continuation-line-indented-4"} ELSE {})
                                                                              \cup AfterDefsOnly(s, r)]
    ELSE LET s0 == IF ~started /\ n < Len(s.open) /\ ~IsBlank(r) THEN [s EXCEPT !.tags = s.tags \cup {"lazy-after-nonpara"}] ELSE s      \* (tip is no paragraph)
             s1 == IF started THEN s0 ELSE CloseTo(s0, n) IN
         IF IsBlank(r) THEN s1
         ELSE LET s2 == PopList(s1) id == NewId(s2) IN
              [AddNode(s2, Node("Paragraph", TopNode(s2), L, 0, <<LStrip(r)>>, NoX)) EXCEPT !.tip = [k |-> "para", node |-> id, f |-> NoFence]]

(* 2. block starts in the remainder r; n containers are matched, pm: the open paragraph is matched too *)
RECURSIVE Starts(_, _, _, _, _, _)
Starts(s, n, r, pm, L, started) ==
    LET closed == IF started THEN s ELSE CloseTo(s, n) IN
    IF IsQuoteMarker(r) THEN
        LET s1 == PopList(closed) id == NewId(s1)
            s2 == [AddNode(s1, Node("Quote", TopNode(s1), L, 0, << >>, NoX)) EXCEPT
                     !.open = Append(s1.open, [kind |-> "quote", node |-> id, w |-> 0, mtype |-> "", ind4 |-> Indented4(AfterQuoteMarker(r))])] IN
        Starts(s2, Len(s2.open), AfterQuoteMarker(r), FALSE, L, TRUE)
    ELSE IF IsAtx(r) THEN
        LET s1 == PopList(closed) IN AddNode(s1, Node("Heading", TopNode(s1), L, AtxLevel(r), <<AtxText(r)>>, NoX))
    ELSE IF IsFenceOpen(r) THEN
        LET s1 == PopList(closed) id == NewId(s1) f == FenceOf(r) IN
        [AddNode(s1, Node("CodeFence", TopNode(s1), L, 0, << >>, [mtype |-> f.info, ordered |-> FALSE, start |-> 0])) EXCEPT
            !.tip = [k |-> "fence", node |-> id, f |-> f]]
    ELSE IF HtmlType(r) \in 1..6 \/ (HtmlType(r) = 7 /\ ~pm /\ ~(~started /\ n < Len(s.open) /\ s.tip.k = "para")) THEN
        (* condition 7 cannot interrupt a paragraph, not even as a line that would otherwise be a lazy continuation line *)
        LET s1 == PopList(closed) id == NewId(s1) ty == HtmlType(r) IN
        [AddNode(s1, Node("HtmlBlock", TopNode(s1), L, 0, <<r>>, NoX)) EXCEPT
            !.tip = IF HtmlEnds(ty, r) THEN NoTip ELSE [k |-> "html", node |-> id, f |-> [ch |-> "", n |-> ty, off |-> 0, info |-> ""]],
            !.tags = s1.tags \cup (IF ~started /\ n < Len(s.open) /\ s.tip.k # "para" /\ ty = 7 THEN {"lazy-after-nonpara"} ELSE {})]
    ELSE IF pm /\ IsSetextUnderline(r) /\ ParaRestLines(s.nodes[s.tip.node].text) # << >> THEN      \* (a paragraph of definitions only has no text to underline)
        [s EXCEPT !.nodes[s.tip.node].t = "SetextHeading", !.nodes[s.tip.node].lv = SetextLevel(r), !.nodes[s.tip.node].last = L, !.tip = NoTip,
                  !.tags = s.tags \cup (IF \E k \in DOMAIN s.open : s.open[k].kind = "quote" THEN {"setext-in-quote"} ELSE {})
                                  \cup (IF ParseDef(RestAfterDefs(ParaText(s.nodes[s.tip.node].text)) \o "\n" \o Trim(r)).ok
                                        THEN {"underline-would-complete-definition"} ELSE {})]
    ELSE IF IsHr(r) THEN
        LET s1 == PopList(closed) IN AddNode(s1, Node("ThematicBreak", TopNode(s1), L, 0, << >>, NoX))
    ELSE IF IsMarker(r, pm) THEN
        LET m == MarkerOf(r)
            same == closed.open # << >> /\ closed.open[Len(closed.open)].kind = "list" /\ closed.open[Len(closed.open)].mtype = m.mtype
            s1 == IF same THEN closed
                  ELSE LET c1 == PopList(closed) id == NewId(c1) IN
                       [AddNode(c1, Node("List", TopNode(c1), L, 0, << >>, [mtype |-> m.mtype, ordered |-> m.ordered, start |-> m.start])) EXCEPT
                           !.open = Append(c1.open, [kind |-> "list", node |-> id, w |-> 0, mtype |-> m.mtype, ind4 |-> FALSE])]
            iid == NewId(s1)
            (* a marker that could not interrupt a paragraph (empty item, ordered list not starting with 1) on a line that leaves its
               containers: the reference reading starts a list here (the restriction is applied only when the paragraph itself was
               reached); read declaratively ("a line that would otherwise count as paragraph continuation text") the line is a lazy
               continuation line when the open leaf is a paragraph.  The specification text does not settle it: tagged, not judged.
               When the open leaf is no paragraph nothing is lazy and the list starts outside the containers. *)
            odd == ~started /\ n < Len(s.open) /\ ~IsMarker(r, TRUE)
            tg == IF odd THEN (IF s.tip.k = "para" THEN {"unsettled-lazy-or-list"} ELSE {"lazy-after-nonpara"}) ELSE {}
            s2 == [AddNode(s1, Node("ListItem", TopNode(s1), L, 0, << >>, NoX)) EXCEPT
                     !.open = Append(s1.open, [kind |-> "item", node |-> iid, w |-> m.w, mtype |-> m.mtype, ind4 |-> FALSE]),
                     !.tags = s1.tags \cup tg \cup (IF IsBlank(m.rest) THEN {"item-begins-with-blank-line"} ELSE {})] IN
        Starts(s2, Len(s2.open), m.rest, FALSE, L, TRUE)
    ELSE IF LeadSp(r) >= 4 /\ s.tip.k # "para" /\ ~IsBlank(r) THEN
        LET s1 == PopList(closed) id == NewId(s1) IN
        [AddNode(s1, Node("BlockCode", TopNode(s1), L, 0, <<Drop(r, 4)>>, NoX)) EXCEPT !.tip = [k |-> "icode", node |-> id, f |-> NoFence],
            !.tags = s1.tags \cup (IF ~started /\ n < Len(s.open) THEN {"lazy-after-nonpara"} ELSE {})]      \* an indented line that leaves its containers
    ELSE TextLine(s, n, r, pm, L, started)

(* one input line *)
Line(s0, ln, L) ==
    LET m == MatchFrom(s0, 1, ln, << >>)
        all == m.n = Len(s0.open)
        r == m.rest
        (* bookkeeping for the finding classes: what stood behind each matched quote marker on this line; a blank line that ends
           the document inside an unclosed fence of a list item *)
        s == [s0 EXCEPT !.open = [k \in DOMAIN s0.open |-> IF k <= m.n /\ s0.open[k].kind = "quote"
                                                              THEN [s0.open[k] EXCEPT !.ind4 = Indented4(m.rests[k])] ELSE s0.open[k]],
                       !.tags = s0.tags \cup (IF all /\ s0.tip.k = "fence" /\ IsBlank(ln) /\ \E k \in DOMAIN s0.open : s0.open[k].kind = "item"
                                               THEN {"blank-line-in-open-fence-in-item"} ELSE {})]
        res ==
          IF all /\ s.tip.k = "fence" THEN
              IF IsFenceClose(r, s.tip.f) THEN [s EXCEPT !.nodes[s.tip.node].last = L, !.tip = NoTip]
              ELSE AddLineTo(s, s.tip.node, Drop(r, IF LeadSp(r) < s.tip.f.off THEN LeadSp(r) ELSE s.tip.f.off), L)
          ELSE IF all /\ s.tip.k = "html" /\ ~(IsBlank(r) /\ s.tip.f.n >= 6) THEN
              (* the line belongs to the HTML block as it stands; conditions 1-5 end with the line that holds the end marker *)
              LET s1 == IF IsBlank(r) THEN [s EXCEPT !.nodes[s.tip.node].text = Append(s.nodes[s.tip.node].text, r)] ELSE AddLineTo(s, s.tip.node, r, L) IN
              IF HtmlEnds(s.tip.f.n, r) THEN [s1 EXCEPT !.tip = NoTip] ELSE s1
          ELSE IF all /\ s.tip.k = "icode" /\ (LeadSp(r) >= 4 \/ IsBlank(r)) THEN
              IF IsBlank(r) THEN [s EXCEPT !.nodes[s.tip.node].text = Append(s.nodes[s.tip.node].text, Drop(r, 4))]      \* (extent unchanged)
              ELSE AddLineTo(s, s.tip.node, Drop(r, 4), L)
          ELSE Starts(s, m.n, r, all /\ s.tip.k = "para" /\ ~IsBlank(r), L, FALSE) IN
    Touch(res, L)

RECURSIVE ParseFrom(_, _, _)
ParseFrom(s, d, k) == IF k > Len(d) THEN s ELSE ParseFrom(Line(s, d[k], k), d, k + 1)
Parse(d) == ParseFrom(Empty, d, 1)

---------------------------------------------------------------------------
(* alphabets that a configuration file cannot spell (backslash) *)
R5 == {"[a]: /&amp;amp;", "[a]: /\\\\*", "[a]: /u '\\&lt;'", "[a]: /u '&amp;lt;'", "[a]", "a", "", "\\[a]", "[a] &amp;lt; \\&amp;", "> [a]", "# [a]", "```\\&amp;", "```&lt;"}      \* escapes and references in definitions
W1 == {"a", "a  ", "a ", "a\\", "a\\\\", "a\\\\\\", "===  ", "---  ", "```  ", "# a  ", "> a  ", "- a  ", "", "  ", "# a #  ", "***  "}

(* the behaviour: one action per line read.  Exhaustive exploration visits every line sequence up to MaxLines (sharded by the
   first line over parallel TLC processes); simulation mode reads random longer documents *)
Ordered == SetToSeq(Alphabet)
ShardOk(l) == IF IOEnv.SHARD = "-" THEN TRUE ELSE IF doc # << >> THEN TRUE ELSE l = Ordered[ToNat(IOEnv.SHARD)]     \* (no disjunction: TLC would explore each disjunct as an action of its own)

Init == doc = << >> /\ st = Empty
Feed(l) == /\ Len(doc) < MaxLines /\ ShardOk(l)
           /\ doc' = Append(doc, l)
           /\ st' = Line(st, l, Len(doc) + 1)
Next == \E l \in Alphabet : Feed(l)
Spec == Init /\ [][Next]_vars

---------------------------------------------------------------------------
(* reading the tree *)
AllKids(s, n) == LET S == {i \in DOMAIN s.nodes : s.nodes[i].p = n} IN SetToSortSeq(S, LAMBDA a, b : a < b)
(* the link reference definitions at the beginning of a paragraph are no part of it; a paragraph of definitions only is no block *)
HasText(nd) == nd.t \in {"Paragraph", "SetextHeading"}
EffText(nd) == IF HasText(nd) THEN ParaRestLines(nd.text) ELSE nd.text
EffLn(nd) == IF HasText(nd) THEN nd.ln + (Len(nd.text) - Len(ParaRestLines(nd.text))) ELSE nd.ln
Visible(nd) == ~(nd.t = "Paragraph" /\ ParaRestLines(nd.text) = << >>)
Kids(s, n) == SelectSeq(AllKids(s, n), LAMBDA i : Visible(s.nodes[i]))

RECURSIVE DefsFrom(_, _)
DefsFrom(s, i) == IF i > Len(s.nodes) THEN << >>
                  ELSE (IF HasText(s.nodes[i]) THEN DefsOf(ParaText(s.nodes[i].text)) ELSE << >>) \o DefsFrom(s, i + 1)
AllDefs(s) == DefsFrom(s, 1)                                   \* in document order (nodes are created in document order)
NormLabel(l) == Lower(Trim(l))                                 \* (labels of the alphabets hold no inner whitespace)
Resolve(D, l) == LET C == {i \in DOMAIN D : NormLabel(D[i].label) = NormLabel(l)} IN IF C = {} THEN 0 ELSE CHOOSE i \in C : \A j \in C : i <= j
Footnotes(s) == LET D == AllDefs(s) IN [i \in DOMAIN D |-> [base |-> NormLabel(D[i].label), href |-> D[i].dest, title |-> D[i].title, first |-> Resolve(D, D[i].label) = i]]

RECURSIVE End(_, _)
End(s, n) == LET nd == s.nodes[n] ks == AllKids(s, n) IN
             IF nd.t \in {"List", "ListItem"} /\ ks # << >> THEN End(s, ks[Len(ks)]) ELSE IF nd.t \in {"List", "ListItem"} THEN nd.ln ELSE nd.last

(* a list is loose if two of its items, or two blocks directly inside one item, are separated by a blank line *)
Gap(s, ks) == \E i \in 1..(Len(ks) - 1) : End(s, ks[i]) + 1 # s.nodes[ks[i + 1]].ln
Loose(s, l) == LET items == AllKids(s, l) IN Gap(s, items) \/ \E i \in DOMAIN items : Gap(s, AllKids(s, items[i]))

RECURSIVE StripTrailingBlank(_)
StripTrailingBlank(ls) == IF ls # << >> /\ IsBlank(ls[Len(ls)]) THEN StripTrailingBlank(SubSeq(ls, 1, Len(ls) - 1)) ELSE ls

CodeHtml(info, body) == "<pre><code" \o (IF info = "" THEN "" ELSE " class=\"language-" \o Esc(Unescape(info)) \o "\"") \o ">"
                        \o Esc(Join(body, "\n")) \o (IF body = << >> THEN "" ELSE "\n") \o "</code></pre>"

RECURSIVE HtmlOf(_, _, _)
HtmlOf(s, n, tight) ==
    LET nd == s.nodes[n]
        ks == Kids(s, n)
        inner(t) == Join([k \in DOMAIN ks |-> HtmlOf(s, ks[k], t)], "\n")
        (* the lines of a text: spaces at the end of a line go; two or more of them, or a backslash, before a further line make a hard
           line break *)
        lns == EffText(nd)
        TextLineHtml(i) == LET l == lns[i] t == RStrip(l) IN
                           IF i < Len(lns) /\ Len(l) - Len(t) >= 2 THEN InlineHtml(t, AllDefs(s)) \o "<br />"
                           ELSE IF i < Len(lns) /\ TrailBs(t) % 2 = 1                  \* (an escaped backslash makes no hard line break)
                                THEN InlineHtml(Take(t, Len(t) - 1), AllDefs(s)) \o "<br />"
                           ELSE InlineHtml(t, AllDefs(s))
        txt == Join([i \in DOMAIN lns |-> TextLineHtml(i)], "\n") IN
    CASE nd.t = "Document"      -> inner(FALSE)
      [] nd.t = "Paragraph"     -> IF tight THEN txt ELSE "<p>" \o txt \o "</p>"
      [] nd.t \in {"Heading", "SetextHeading"} -> "<h" \o NatStr(nd.lv) \o ">" \o txt \o "</h" \o NatStr(nd.lv) \o ">"
      [] nd.t = "ThematicBreak" -> "<hr />"
      [] nd.t = "CodeFence"     -> CodeHtml(nd.x.mtype, nd.text)
      [] nd.t = "BlockCode"     -> CodeHtml("", StripTrailingBlank(nd.text))
      [] nd.t = "HtmlBlock"     -> Join(StripTrailingBlank(nd.text), "\n")
      [] nd.t = "Quote"         -> "<blockquote>\n" \o inner(FALSE) \o "\n</blockquote>"
      [] nd.t = "List"          -> LET tag == IF nd.x.ordered THEN "ol" ELSE "ul"
                                       sa == IF nd.x.ordered /\ nd.x.start # 1 THEN " start=\"" \o NatStr(nd.x.start) \o "\"" ELSE "" IN
                                   "<" \o tag \o sa \o ">\n" \o inner(~Loose(s, n)) \o "\n</" \o tag \o ">"
      [] OTHER                  -> "<li>" \o inner(tight) \o "</li>"

RECURSIVE Pre(_, _)
Pre(s, n) == <<n>> \o (LET ks == Kids(s, n) IN
                       LET RECURSIVE Cat(_)
                           Cat(i) == IF i > Len(ks) THEN << >> ELSE Pre(s, ks[i]) \o Cat(i + 1)
                       IN Cat(1))
LinesOf(s) == LET o == Pre(s, 1) IN [i \in DOMAIN o |-> [t |-> s.nodes[o[i]].t, ln |-> EffLn(s.nodes[o[i]])]]

(* the tree without line numbers: what C04 and C05 compare *)
RECURSIVE Shape(_, _)
Shape(s, n) == LET nd == s.nodes[n] ks == Kids(s, n) IN
               [t |-> nd.t, lv |-> nd.lv, text |-> IF nd.t \in {"BlockCode", "HtmlBlock"} THEN StripTrailingBlank(nd.text) ELSE EffText(nd), x |-> nd.x,
                loose |-> IF nd.t = "List" THEN Loose(s, n) ELSE FALSE, c |-> [k \in DOMAIN ks |-> Shape(s, ks[k])]]

---------------------------------------------------------------------------
(* invariants of the reader itself *)
TypeOK ==
    /\ \A i \in DOMAIN st.nodes : st.nodes[i].p < i /\ st.nodes[i].ln <= st.nodes[i].last
    /\ \A k \in DOMAIN st.open : st.open[k].node \in DOMAIN st.nodes
    /\ \A k \in 2..Len(st.open) : st.nodes[st.open[k].node].p = st.open[k - 1].node           \* the open containers form a chain
    /\ (st.open # << >> => st.nodes[st.open[1].node].p = 1)
    /\ (st.tip.k # "none" => st.nodes[st.tip.node].p = TopNode(st))                           \* the open leaf hangs below the innermost container
    /\ \A k \in DOMAIN st.open : (st.open[k].kind = "item") = (k > 1 /\ st.open[k - 1].kind = "list")   \* items sit in lists, lists hold items

(* block starts are ordered as the lines are; children lie within their parent's extent *)
Ordered2 == \A i, j \in DOMAIN st.nodes : (i < j /\ st.nodes[i].p = st.nodes[j].p) => st.nodes[i].ln <= st.nodes[j].ln
Nested == \A i \in 2..Len(st.nodes) : st.nodes[st.nodes[i].p].ln <= st.nodes[i].ln

(* design-level laws, checked on every document *)
Quoted(d) == [i \in DOMAIN d |-> "> " \o d[i]]
(* C04 (block quotes): putting "> " before every line wraps the parse in one block quote *)
LawsOn == IF "LAWS" \in DOMAIN IOEnv THEN IOEnv.LAWS # "off" ELSE TRUE        \* (C13 re-reads the same documents for their line numbers only)
QuoteLaw ==
    (LawsOn /\ doc # << >>) =>
        LET q == Parse(Quoted(doc)) ks == Kids(q, 1) IN
        /\ Len(ks) = 1 /\ q.nodes[ks[1]].t = "Quote"
        /\ [k \in DOMAIN Kids(q, ks[1]) |-> Shape(q, Kids(q, ks[1])[k])] = [k \in DOMAIN Kids(st, 1) |-> Shape(st, Kids(st, 1)[k])]
        /\ AllDefs(q) = AllDefs(st)

(* C04 (lists): a list marker of width 2 before the first line (which starts with a non-space character) and two spaces before
   every other non-blank line wrap the parse in one single-item list - unless marker and first line together read as a
   thematic break ("- " before "- -"), the coincidence the specification resolves the other way *)
Itemised(d) == [i \in DOMAIN d |-> IF i = 1 THEN "- " \o d[1] ELSE IF IsBlank(d[i]) THEN d[i] ELSE "  " \o d[i]]
ListLaw ==
    (LawsOn /\ doc # << >> /\ doc[1] # "" /\ Ch(doc[1], 1) # " " /\ ~IsHr("- " \o doc[1]) /\ ~IsBlank(doc[Len(doc)])
        /\ \A i \in DOMAIN doc : IsBlank(doc[i]) => doc[i] = "") =>        \* (how a whitespace-only line is indented is not said: outside the law, as in C04)
        LET q == Parse(Itemised(doc)) ks == Kids(q, 1) IN
        /\ Len(ks) = 1 /\ q.nodes[ks[1]].t = "List"
        /\ Len(Kids(q, ks[1])) = 1
        /\ LET it == Kids(q, ks[1])[1] IN
           [k \in DOMAIN Kids(q, it) |-> Shape(q, Kids(q, it)[k])] = [k \in DOMAIN Kids(st, 1) |-> Shape(st, Kids(st, 1)[k])]

(* C05: if the document ends in a closed block, a blank line and more text parse independently *)
EndsClosed(s) == LET ks == Kids(s, 1) IN ks # << >> /\ s.nodes[ks[Len(ks)]].t \in {"Paragraph", "Heading", "SetextHeading", "ThematicBreak", "Quote"}
                 /\ s.tip.k \notin {"html", "fence"}
ConcatLaw ==
    (LawsOn /\ doc # << >>) =>
        \A b \in Alphabet :
            (EndsClosed(st) /\ ~IsBlank(doc[Len(doc)]) /\ AllDefs(Parse(doc \o <<"", b>>)) = << >>) =>          \* (C05: neither part defines link references)
                LET ab == Parse(doc \o <<"", b>>) pb == Parse(<<b>>) IN
                [k \in DOMAIN Kids(ab, 1) |-> Shape(ab, Kids(ab, 1)[k])]
                    = [k \in DOMAIN Kids(st, 1) |-> Shape(st, Kids(st, 1)[k])] \o [k \in DOMAIN Kids(pb, 1) |-> Shape(pb, Kids(pb, 1)[k])]

(* whether definitions standing directly in a list item (a paragraph that leaves no text) take part in "two blocks with a blank
   line between them" is not settled by the specification text: such documents are tagged and not judged *)
ExportTags(s) == IF \E i \in DOMAIN s.nodes : HasText(s.nodes[i]) /\ DefsOf(ParaText(s.nodes[i].text)) # << >> /\ s.nodes[s.nodes[i].p].t = "ListItem"
                 THEN {"unsettled-definition-in-list-item"} ELSE {}

StateIsParse == st = Parse(doc)        \* the step-by-step reading is the function Parse (used by the laws on transformed documents)

Export == doc # << >> =>
    PrintT(ToJson([src |-> Join(doc, "\n") \o "\n", html |-> HtmlOf(st, 1, FALSE), lines |-> LinesOf(st), defs |-> Footnotes(st),
                   tags |-> st.tags \cup ExportTags(st), nblocks |-> Len(st.nodes) - 1]))
=============================================================================
