----------------------------- MODULE LawsTrace -----------------------------
(* Trace judgement: every record of the trace file is one initial state;   *)
(* its verdict is Laws!Judge evaluated on it.  Rejections are printed.     *)
EXTENDS Laws, Json, IOUtils
Recs == ndJsonDeserialize(IOEnv.TRACE_FILE)
VARIABLES tid, verdict
Init == tid \in 1..Len(Recs) /\ verdict = Judge(Recs[tid])
Next == UNCHANGED <<tid, verdict>>
Report == verdict = "ok" \/ PrintT(ToJson([tid |-> tid, verdict |-> verdict]))
=============================================================================
