CONSTANTS
  P = 4
  Precs = {3, 4, 5, 6, 7}
  NCands = 3
  Enclosed = TRUE
INIT Init
NEXT Next
INVARIANT FoldWellTiled
INVARIANT EnclosedRule
INVARIANT Export
CHECK_DEADLOCK FALSE
