----------------------------- MODULE InlineLines -----------------------------
(***************************************************************************)
(* Inline content that spans lines: the text of a paragraph of several     *)
(* lines (CommonMark 0.30, sections 4.8, 6.1, 6.7, 6.8).  The block phase  *)
(* strips the indentation of continuation lines; in the inline phase a     *)
(* line end inside a code span is a space, spaces before a line end are    *)
(* dropped, two or more of them make it a hard line break.  The scan and   *)
(* the rendering are InlineScan's; this module adds the paragraph level:   *)
(* which texts are one paragraph, and what the inline phase sees of them.  *)
(***************************************************************************)
EXTENDS InlineScan

CONSTANTS LineAlphabet, LineMaxLen

N1 == {"a", "`", "\n", " "}
N2 == {"a", "*", "\n", " "}
N3 == {"a", "\\", "\n", " ", "*"}
N4 == {"a", "<", ">", "\n", " ", "/"}           \* raw HTML tags across lines

(* the lines of a text *)
RECURSIVE SplitNl(_)
SplitNl(t) == LET S == {i \in DOMAIN t : t[i] = "\n"} IN
              IF S = {} THEN <<t>>
              ELSE LET i == CHOOSE x \in S : \A y \in S : x <= y IN <<SubSeq(t, 1, i - 1)>> \o SplitNl(SubSeq(t, i + 1, Len(t)))
RECURSIVE LStripSp(_)
LStripSp(l) == IF l # << >> /\ Head(l) = " " THEN LStripSp(Tail(l)) ELSE l
RECURSIVE JoinNl(_)
JoinNl(ls) == IF Len(ls) = 1 THEN ls[1] ELSE ls[1] \o <<"\n">> \o JoinNl(Tail(ls))
(* one paragraph: no blank line, begins and ends with a non-space character, no line that opens a code fence or is a thematic break *)
FenceLike(l) == Len(l) >= 3 /\ l[1] = "`" /\ l[2] = "`" /\ l[3] = "`"
RECURSIVE NoSp(_)
NoSp(l) == IF l = << >> THEN << >> ELSE IF Head(l) = " " THEN NoSp(Tail(l)) ELSE <<Head(l)>> \o NoSp(Tail(l))
RuleLike(l) == LET c == NoSp(l) IN Len(c) >= 3 /\ \A i \in DOMAIN c : c[i] = "*"
BulletLike(l) == Len(l) >= 1 /\ l[1] = "*" /\ (Len(l) = 1 \/ l[2] = " ")
(* a first line that is a complete tag (followed by spaces only) starts an HTML block of kind 7; a line that begins with ">" a quote *)
TagLine(l) == l # << >> /\ l[1] = "<" /\ LET e == HtmlTagEnd(l, 1) IN e > 0 /\ \A q \in (e + 1)..Len(l) : l[q] = " "
OneParagraph(t) ==
    LET ls == SplitNl(t) IN
    /\ t[1] \notin {" ", "\n"} /\ t[Len(t)] \notin {" ", "\n"}
    /\ ~TagLine(ls[1]) /\ \A i \in DOMAIN ls : LStripSp(ls[i]) = << >> \/ Head(LStripSp(ls[i])) # ">"
    /\ \A i \in DOMAIN ls : LStripSp(ls[i]) # << >> /\ ~FenceLike(LStripSp(ls[i])) /\ ~RuleLike(ls[i]) /\ ~BulletLike(LStripSp(ls[i]))
(* what the inline phase sees: continuation lines without their indentation *)
ParaText(t) == LET ls == SplitNl(t) IN JoinNl([i \in DOMAIN ls |-> IF i = 1 THEN ls[i] ELSE LStripSp(ls[i])])

VARIABLE typed
lvars == <<ivars, typed>>
Texts == UNION {[1..n -> LineAlphabet] : n \in 1..LineMaxLen}
NInit ==
    /\ typed \in {t \in Texts : OneParagraph(t) /\ (IOEnv.SHARD = "-" \/ t[1] = IOEnv.SHARD)}
    /\ raw = ParaText(typed)
    /\ input = Classes(raw)
    /\ stack = Runs(input) /\ cur = 1 /\ matches = {} /\ phase = "run"
NNext == Step /\ UNCHANGED <<raw, typed>>
NSpec == NInit /\ [][NNext]_lvars

NExport == phase = "done" => PrintT(ToJson([input |-> Flat(typed), html |-> Html, tags |-> ITags]))
=============================================================================
