CONSTANTS
  RAlphabet <- NA
  RMaxLen = 7
SPECIFICATION RSpec
INVARIANT RTypeOK
INVARIANT InOrder
INVARIANT InactiveHasLink
INVARIANT RExport
CHECK_DEADLOCK FALSE
