CONSTANTS
  Pool = "all"
  MaxLines = 3
  MaxPerLine = 1
  MaxLexemes = 0
INIT Init
NEXT Next
INVARIANT TypeOK
INVARIANT Export
CHECK_DEADLOCK FALSE
