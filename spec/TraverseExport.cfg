CONSTANT MaxNodes = 4
INIT Init
NEXT Next
INVARIANT Faithful
INVARIANT Export
CHECK_DEADLOCK FALSE
