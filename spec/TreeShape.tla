----------------------------- MODULE TreeShape -----------------------------
(***************************************************************************)
(* C12: well-formedness of a parsed token tree, and faithfulness of the    *)
(* generic views (utils.traverse, AstRenderer).                            *)
(*                                                                         *)
(* A dump is a flat sequence of node records taken from the real object    *)
(* graph.  Node i of the sequence has id i; node 1 is the document.        *)
(*   cls    class name                  mro    names of all base classes   *)
(*   kind   "block" | "span"            parent id reported by .parent (0 = none) *)
(*   kids   ids listed in .children, in order                              *)
(*   leaf   "yes" when .children is None                                   *)
(*   role   "child" | "header" (a table's header row is held in .header)   *)
(*   level  heading level (0 when not a heading)                           *)
(*   start, leader   list start (as written by repr) / first item's marker number *)
(***************************************************************************)
EXTENDS Naturals, Sequences, FiniteSets, TLC

Ids(d) == DOMAIN d

Listed(d, k) == {n \in Ids(d) : \E i \in DOMAIN d[n].kids : d[n].kids[i] = k}
KidPairs(d) == UNION {{<<n, i>> : i \in DOMAIN d[n].kids} : n \in Ids(d)}
KidIds(d)   == {d[p[1]].kids[p[2]] : p \in KidPairs(d)}
(* every non-root node is listed by exactly one node, exactly once *)
ListedOnce(d) == /\ Cardinality(KidPairs(d)) = Cardinality(KidIds(d))
                 /\ KidIds(d) = {n \in Ids(d) : n # 1 /\ d[n].role = "child"}

ContainerBlocks == {"Document", "Quote", "ListItem"}
InlineHolders   == {"Paragraph", "Heading", "SetextHeading", "TableCell"}
OneRawText      == {"BlockCode", "CodeFence", "HtmlBlock", "InlineCode", "AutoLink", "EscapeSequence"}
NoChildren      == {"RawText", "LineBreak", "HtmlSpan", "Math", "ThematicBreak", "BlankLine", "XWikiBlockMacroStart",
                    "XWikiBlockMacroEnd", "LinkReferenceDefinition"}
InlineContainers == {"Strong", "Emphasis", "Strikethrough", "Link", "Image", "GithubWiki"}
(* block classes that may not appear as free-standing children of a container *)
Bound == {"ListItem", "TableRow", "TableCell", "Document", "LinkReferenceDefinition"}

KidsOf(d, n) == [i \in DOMAIN d[n].kids |-> d[d[n].kids[i]]]
AllKids(d, n, P(_)) == \A i \in DOMAIN d[n].kids : P(d[d[n].kids[i]])

KindRule(d, n) ==
    LET c == d[n].cls IN
    CASE c \in ContainerBlocks -> AllKids(d, n, LAMBDA k : k.kind = "block" /\ k.cls \notin Bound)
      [] c = "List"      -> Len(d[n].kids) >= 1 /\ AllKids(d, n, LAMBDA k : k.cls = "ListItem")
      [] c = "Table"     -> AllKids(d, n, LAMBDA k : k.cls = "TableRow")
      [] c = "TableRow"  -> AllKids(d, n, LAMBDA k : k.cls = "TableCell")
      [] c \in InlineHolders \/ c \in InlineContainers -> AllKids(d, n, LAMBDA k : k.kind = "span")
      [] c \in OneRawText -> Len(d[n].kids) = 1 /\ AllKids(d, n, LAMBDA k : k.cls = "RawText")
      [] c = "LinkReferenceDefinitionBlock" -> AllKids(d, n, LAMBDA k : k.cls = "LinkReferenceDefinition")
      [] c \in NoChildren -> Len(d[n].kids) = 0
      [] OTHER -> (* a class this table does not know: only the generic rules apply *)
                  (d[n].kind = "span" => AllKids(d, n, LAMBDA k : k.kind = "span"))

WellFormed(d) ==
    IF Len(d) = 0 \/ d[1].cls # "Document" \/ d[1].parent # 0 THEN "Tree.root"
    ELSE IF ~ListedOnce(d) THEN "Tree.listed-exactly-once"
    ELSE IF \E n \in Ids(d) : \E i \in DOMAIN d[n].kids : d[d[n].kids[i]].parent # n THEN "Tree.parent-link"
    ELSE IF \E n \in Ids(d) : d[n].kind = "span" /\ \E i \in DOMAIN d[n].kids : d[d[n].kids[i]].kind = "block" THEN "Tree.block-inside-inline"
    ELSE IF \E n \in Ids(d) : ~KindRule(d, n) THEN "Tree.child-kinds"
    ELSE IF \E n \in Ids(d) : d[n].cls \in {"Heading", "SetextHeading"} /\ d[n].level \notin 1..6 THEN "Tree.heading-level"
    ELSE IF \E n \in Ids(d) : d[n].cls = "List" /\ d[n].start # d[n].leader THEN "Tree.list-start"
    ELSE "ok"

---------------------------------------------------------------------------
(* What the tree-walking utility must yield, computed from the dump's      *)
(* child lists alone: every node reachable from the source other than the  *)
(* source (and the source itself when asked for), once, with the node that *)
(* lists it and its distance from the source; restricted by class filter   *)
(* and depth limit.  depthLimit = 0 stands for "no limit".                 *)
RECURSIVE DepthOf(_, _, _)
DepthOf(d, src, n) == IF n = src THEN 0 ELSE 1 + DepthOf(d, src, CHOOSE p \in Listed(d, n) : TRUE)

RECURSIVE Below(_, _)
Below(d, n) == UNION {{d[n].kids[i]} \cup Below(d, d[n].kids[i]) : i \in DOMAIN d[n].kids}

Matches(node, klass) == klass = "" \/ \E i \in DOMAIN node.mro : node.mro[i] = klass

ExpectedYields(d, src, klass, depthLimit, includeSource) ==
    {[node |-> n, parent |-> CHOOSE p \in Listed(d, n) : TRUE, depth |-> DepthOf(d, src, n)] :
        n \in {k \in Below(d, src) : Matches(d[k], klass) /\ (depthLimit = 0 \/ DepthOf(d, src, k) <= depthLimit)}}
    \cup (IF includeSource /\ Matches(d[src], klass) THEN {[node |-> src, parent |-> 0, depth |-> 0]} ELSE {})

TraverseLaw(r) ==
    IF Cardinality(KidPairs(r.dump)) # Cardinality(KidIds(r.dump)) THEN "Traverse.not-a-tree"       \* some token is listed twice: depth and parent are not defined
    ELSE
    LET exp == ExpectedYields(r.dump, r.src, r.klass, r.depthLimit, r.includeSource = "yes")
        got == {r.yields[i] : i \in DOMAIN r.yields} IN
    IF Cardinality(got) # Len(r.yields) THEN "Traverse.yielded-twice"
    ELSE IF got # exp THEN (IF \E g \in got : g \notin exp THEN "Traverse.wrong-yield" ELSE "Traverse.missing")
    ELSE "ok"

---------------------------------------------------------------------------
(* The AST renderer's JSON (parsed by the harness with a standard JSON     *)
(* parser into the same nested shape) mirrors the tree.                    *)
MirrorLaw(r) ==
    IF r.valid # "yes" THEN "Mirror.invalid-json"
    ELSE IF r.ast # r.tree THEN "Mirror.differs"
    ELSE "ok"

Judge(r) ==
    CASE r.law = "shape"    -> WellFormed(r.dump)
      [] r.law = "traverse" -> TraverseLaw(r)
      [] r.law = "mirror"   -> MirrorLaw(r)
      [] OTHER -> "unknown-law"
=============================================================================
