CONSTANTS
  P = 3
  Precs = {3, 5, 7}
  NCands = 2
  Enclosed = FALSE
INIT Init
NEXT Next
INVARIANT FoldWellTiled
INVARIANT PairRule
INVARIANT Export
CHECK_DEADLOCK FALSE
