------------------------------ MODULE Corpus ------------------------------
(***************************************************************************)
(* C02: the CommonMark 0.30 normative corpus.                              *)
(*                                                                         *)
(* Expected is the vendored corpus (corpus/expected-0.30.ndjson, derived   *)
(* from corpus/commonmark-0.30.json by tools/derive_corpus.py: example     *)
(* number and expected HTML after the test driver's normalisation, ASCII   *)
(* image).  The trace holds one record per render performed by the real    *)
(* HTML renderer.  The machine consumes the trace in order; Render(e) is   *)
(* only enabled with the expected output, anything else is a Reject step   *)
(* that records the example.  Acceptance: every example 1..N was rendered  *)
(* exactly once and none was rejected.                                     *)
(***************************************************************************)
EXTENDS Naturals, Sequences, FiniteSets, TLC, Json, IOUtils

Expected == ndJsonDeserialize(IOEnv.EXPECTED_FILE)
Recs     == ndJsonDeserialize(IOEnv.TRACE_FILE)
N        == Len(Expected)

VARIABLES pos, seen, rejected
vars == <<pos, seen, rejected>>

Init == pos = 1 /\ seen = {} /\ rejected = {}

Render(e) ==
    /\ pos <= Len(Recs)
    /\ Recs[pos].example = e
    /\ e \in 1..N /\ e \notin seen
    /\ Expected[e].example = e
    /\ Recs[pos].out = Expected[e].html
    /\ seen' = seen \cup {e}
    /\ pos' = pos + 1
    /\ UNCHANGED rejected

Reject ==
    /\ pos <= Len(Recs)
    /\ LET e == Recs[pos].example IN
       /\ ~(e \in 1..N /\ e \notin seen /\ Recs[pos].out = Expected[e].html)
       /\ rejected' = rejected \cup {e}
       /\ PrintT(ToJson([tid |-> pos, verdict |-> "Corpus.example-differs", example |-> e]))
    /\ pos' = pos + 1
    /\ UNCHANGED seen

Next == (\E e \in 1..N : Render(e)) \/ Reject

Done == pos = Len(Recs) + 1

(* completeness and equality book-keeping *)
Accepted == Done => (seen = 1..N /\ rejected = {})
Complete == Done => (seen \cup rejected) = 1..N
Post == PrintT(ToJson([summary |-> "corpus", seen |-> Cardinality(seen), rejected |-> Cardinality(rejected), n |-> N]))
=============================================================================
