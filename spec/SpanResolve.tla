----------------------------- MODULE SpanResolve -----------------------------
(***************************************************************************)
(* C16: inline conflict resolution.                                        *)
(*                                                                         *)
(* A candidate match is [id, s, e, ps, pe, prec, inner]:                   *)
(*   [s, e)   the matched source range      [ps, pe)  its parse group      *)
(*   prec     precedence of its token type  inner     may it have children *)
(* with 0 <= s <= ps <= pe <= e <= P and s < e.  Candidates are given in    *)
(* candidate order: by start, for equal starts the longer match first, and *)
(* for equal ranges by the position of the token type in the token list.   *)
(*                                                                         *)
(* Property tier                                                           *)
(*   WellTiled(forest)  siblings in source order and disjoint, children    *)
(*                      inside the parent's parse group, only inner tokens *)
(*                      have children (then raw text fills every gap, which *)
(*                      the trace predicate Cover checks on real output)   *)
(*   Stated(x, y)       the admissible outcomes for two candidates         *)
(* Implementation tier: the fold eval_tokens / eval_new_child / relation   *)
(* over the ordered candidates, one action per candidate consumed.         *)
(* TLC checks that the fold's result is WellTiled for every candidate set  *)
(* explored and is in Stated for every pair; each explored configuration   *)
(* is exported and realised with real custom tokens (spec -> code).        *)
(***************************************************************************)
EXTENDS Naturals, Integers, Sequences, FiniteSets, TLC, Json, IOUtils

CONSTANTS P,          \* positions 0..P
          Precs,      \* precedences explored
          NCands,     \* number of candidates in a configuration
          Enclosed    \* TRUE: the first candidate spans the whole text, parses its inside and encloses the others

Spans == {sp \in [s : 0..P, e : 0..P, ps : 0..P, pe : 0..P] : sp.s < sp.e /\ sp.s <= sp.ps /\ sp.ps <= sp.pe /\ sp.pe <= sp.e}

Cand(i, sp, pr, inn) == [id |-> i, s |-> sp.s, e |-> sp.e, ps |-> sp.ps, pe |-> sp.pe, prec |-> pr, inner |-> inn]

---------------------------------------------------------------------------
(* implementation tier: the fold *)
Relation(x, y) ==
    IF x.e <= y.s THEN 0                                   \* x precedes y
    ELSE IF x.e >= y.e /\ x.ps <= y.s /\ x.pe >= y.e THEN 2  \* x contains y in its parse group
    ELSE IF x.e >= y.e /\ x.pe <= y.s THEN 3               \* y lies in x after x's parse group: ignored
    ELSE 1                                                 \* x intersects y

Node(c) == [c |-> c, kids |-> << >>]

RECURSIVE AppendChild(_, _)
AppendChild(p, ch) ==
    IF ~p.c.inner THEN p
    ELSE IF p.kids = << >> THEN [p EXCEPT !.kids = <<ch>>]
    ELSE LET n == Len(p.kids)
             last == p.kids[n]
             r == Relation(last.c, ch.c) IN
         IF r = 0 THEN [p EXCEPT !.kids = Append(@, ch)]
         ELSE IF r = 1 /\ last.c.prec < ch.c.prec THEN [p EXCEPT !.kids[n] = ch]
         ELSE IF r = 2 THEN [p EXCEPT !.kids[n] = AppendChild(last, ch)]
         ELSE p

VARIABLES cands,      \* the configuration, in candidate order
          idx, prev, buffer, phase
vars == <<cands, idx, prev, buffer, phase>>

(* candidate order: by start; for equal starts the longer match first; then by position in the token list *)
Ordered(cs) == \A i \in 1..(Len(cs) - 1) : cs[i].s < cs[i + 1].s \/ (cs[i].s = cs[i + 1].s /\ cs[i].e >= cs[i + 1].e)

InShard(cs) == LET p == IOEnv.SHARD IN p = "-" \/ ToString(cs[1].s) \o ToString(cs[1].e) = p

Whole == [s |-> 0, e |-> P, ps |-> 0, pe |-> P]
CandSet(i) == {Cand(i, sp, pr, inn) : sp \in Spans, pr \in Precs, inn \in BOOLEAN}
(* ordered pairs of candidates with ids k and k + 1 *)
PairSet(k) == {<<x, y>> \in CandSet(k) \X CandSet(k + 1) : Ordered(<<x, y>>)}

Init ==
    /\ cands \in IF Enclosed
                 THEN {<<Cand(1, Whole, 5, TRUE), p[1], p[2]>> : p \in {q \in PairSet(2) : InShard(<<q[1]>>)}}
                 ELSE {<<p[1], p[2]>> : p \in {q \in PairSet(1) : InShard(<<q[1]>>)}}
    /\ idx = 2 /\ prev = Node(cands[1]) /\ buffer = << >> /\ phase = "fold"

Consume ==
    /\ phase = "fold"
    /\ IF idx > Len(cands)
       THEN /\ buffer' = Append(buffer, prev) /\ phase' = "done" /\ UNCHANGED <<cands, idx, prev>>
       ELSE LET y == Node(cands[idx])
                r == Relation(prev.c, y.c) IN
            /\ idx' = idx + 1
            /\ CASE r = 0 -> buffer' = Append(buffer, prev) /\ prev' = y
                 [] r = 1 -> prev' = (IF prev.c.prec >= y.c.prec THEN prev ELSE y) /\ UNCHANGED buffer
                 [] r = 2 -> prev' = AppendChild(prev, y) /\ UNCHANGED buffer
                 [] r = 3 -> UNCHANGED <<prev, buffer>>
            /\ UNCHANGED <<cands, phase>>

Next == Consume

---------------------------------------------------------------------------
(* property tier *)
RECURSIVE WellTiledIn(_, _, _, _)
WellTiledIn(nodes, from, to, innerOk) ==
    /\ (nodes # << >> => innerOk)
    /\ \A i \in DOMAIN nodes :
          /\ from <= nodes[i].c.s /\ nodes[i].c.e <= to
          /\ (i > 1 => nodes[i - 1].c.e <= nodes[i].c.s)
          /\ WellTiledIn(nodes[i].kids, nodes[i].c.ps, nodes[i].c.pe, nodes[i].c.inner)
WellTiled(forest) == WellTiledIn(forest, 0, P, TRUE)

RECURSIVE Flatten(_, _)
(* forest -> set of <<id, parent id>> *)
Flatten(nodes, parent) == UNION {{<<nodes[i].c.id, parent>>} \cup Flatten(nodes[i].kids, nodes[i].c.id) : i \in DOMAIN nodes}

Disjoint(x, y) == x.e <= y.s \/ y.e <= x.s
Inside(y, x)   == x.ps <= y.s /\ y.e <= x.pe            \* y lies in x's parse group
AfterGroup(y, x) == x.pe <= y.s /\ y.e <= x.e /\ ~Inside(y, x)   \* y lies in x, behind x's parse group

Both(x, y)  == {<<x.id, 0>>, <<y.id, 0>>}
Only(x)     == {<<x.id, 0>>}
Nest(x, y)  == IF x.inner THEN {<<x.id, 0>>, <<y.id, x.id>>} ELSE {<<x.id, 0>>}     \* y nests in x (dropped when x cannot have children)
Winner(x, y) == IF x.prec > y.prec THEN {Only(x)}
                ELSE IF y.prec > x.prec THEN {Only(y)}
                ELSE IF x.s < y.s THEN {Only(x)}
                ELSE {Only(x), Only(y)}           \* same start, same precedence: "earlier" is not defined by the statement

(* admissible outcomes for two candidates, x before y in candidate order *)
Stated(x, y) ==
    IF Disjoint(x, y) THEN {Both(x, y)}
    ELSE LET same == x.s = y.s /\ x.e = y.e IN
         IF Inside(y, x) /\ ~Inside(x, y) /\ ~same THEN {Nest(x, y)}
         ELSE IF Inside(x, y) /\ ~Inside(y, x) /\ ~same THEN {Nest(y, x)}
         ELSE \* a conflict, or one of the cases the statement does not settle: two matches on the very same range
              \* (nesting and precedence are both defensible), and a match that lies in the other one behind its
              \* parse group (the word "conflict" does not say whether the enclosing match simply keeps it out)
              (IF Inside(y, x) THEN {Nest(x, y)} ELSE {}) \cup (IF Inside(x, y) THEN {Nest(y, x)} ELSE {})
              \cup (IF AfterGroup(y, x) THEN {Only(x)} ELSE {}) \cup (IF AfterGroup(x, y) THEN {Only(y)} ELSE {})
              \cup (IF same \/ (~Inside(y, x) /\ ~Inside(x, y)) THEN Winner(x, y) ELSE {})

Result == Flatten(buffer, 0)

FoldWellTiled == phase = "done" => WellTiled(buffer)
PairRule == (phase = "done" /\ Len(cands) = 2) => Result \in Stated(cands[1], cands[2])

(* the same rule one level down: two candidates inside the parse group of an enclosing token that parses its inside *)
Lift(o) == {<<1, 0>>} \cup {<<p[1], IF p[2] = 0 THEN 1 ELSE p[2]>> : p \in o}
EnclosedRule == (phase = "done" /\ Enclosed /\ Len(cands) = 3) => Result \in {Lift(o) : o \in Stated(cands[2], cands[3])}

Export == phase = "done" =>
    PrintT(ToJson([cands |-> cands,
                   model |-> {<<p[1], p[2]>> : p \in Result},
                   stated |-> IF Len(cands) = 2 THEN Stated(cands[1], cands[2])
                              ELSE IF Enclosed /\ Len(cands) = 3 THEN {Lift(o) : o \in Stated(cands[2], cands[3])} ELSE {}]))
=============================================================================
