CONSTANTS
  NLines = 4
  Misbehave = TRUE
INIT Init
NEXT Next
INVARIANT Terminates
CHECK_DEADLOCK FALSE
