INIT Init
NEXT Next
INVARIANT Complete
CHECK_DEADLOCK FALSE
