CONSTANTS
  MaxHeadings = 5
  MaxLevel = 4
  VariantSet = {1, 3}
INIT Init
NEXT Next
INVARIANT IndentNestingIsLevelNesting
INVARIANT Export
CHECK_DEADLOCK FALSE
