CONSTANTS
  MaxItems = 3
  MaxLen = 3
  Budgets = {1}
  Mode = "defs"
  MaxPath = 3
  Templates = {"plain1"}
INIT Init
NEXT Next
INVARIANT ExportDoc
CHECK_DEADLOCK FALSE
