CONSTANTS
  Pool = "markers"
  MaxLines = 2
  MaxPerLine = 2
  MaxLexemes = 0
INIT Init
NEXT Next
INVARIANT TypeOK
INVARIANT Export
CHECK_DEADLOCK FALSE
