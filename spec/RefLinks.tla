------------------------------ MODULE RefLinks ------------------------------
(***************************************************************************)
(* Reference links and images (CommonMark 0.30, section 6.3 "reference     *)
(* links", and the procedure "look for link or image" of the appendix),    *)
(* next to the plainest inline destination (the grammar of destinations    *)
(* and titles is LinkSyntax.tla, brackets with emphasis InlineLinks.tla).  *)
(* No emphasis.  The document defines one label, "a"; every other label  *)
(* is undefined.                                                           *)
(*   "[" pushes a link opener, "![" an image opener; at "]" the innermost  *)
(*   opener is looked at: none -> literal; inactive -> removed, literal;   *)
(*   else what follows decides the label that is looked up -               *)
(*     a link label "[...]" with something inside : that label (full),     *)
(*     otherwise (collapsed "[]", or shortcut) the text between the        *)
(*     brackets, provided it holds no bracket itself;                      *)
(*   defined -> link / image around the content, the label behind it is    *)
(*   consumed, the opener is removed and - for a link - all earlier link   *)
(*   openers are deactivated (links do not nest; images may hold links);   *)
(*   undefined -> the opener is removed, "]" is literal text.              *)
(* One action per scanning step; every text up to a length bound over a    *)
(* small alphabet is explored and exported with its expected HTML.         *)
(***************************************************************************)
EXTENDS Naturals, Integers, Sequences, FiniteSets, TLC, Json, IOUtils

CONSTANTS RAlphabet, RMaxLen

VARIABLES txt, pos, br, out, phase
rvars == <<txt, pos, br, out, phase>>

RECURSIVE Flat(_)
Flat(sq) == IF sq = << >> THEN "" ELSE Head(sq) \o Flat(Tail(sq))
At(i) == IF i >= 1 /\ i <= Len(txt) THEN txt[i] ELSE ""

(* output tokens *)
C(p)  == [k |-> "c", p |-> p, d |-> "", tt |-> ""]
Mark(k, d, tt) == [k |-> k, p |-> 0, d |-> d, tt |-> tt]           \* "la" <a>, "lz" </a>, "ia" <img alt=", "iz" " />; d = the destination as written in href / src

(* a link label at q: "[", no bracket inside, "]"; its length or 0 *)
(* backslash escapes: a backslash before an ASCII punctuation character makes it literal (brackets and "!" are the ones that matter
   here); position i holds an escaped character *)
Punct == {"[", "]", "!", "\\", "(", ")"}
RECURSIVE EscapedAt(_)
EscapedAt(i) == i > 1 /\ txt[i - 1] = "\\" /\ txt[i] \in Punct /\ ~EscapedAt(i - 1)
LabelLen(q) ==
    IF At(q) # "[" THEN 0
    ELSE LET S == {j \in (q + 1)..Len(txt) : txt[j] \in {"[", "]"} /\ ~EscapedAt(j)} IN
         IF S = {} THEN 0
         ELSE LET j == CHOOSE x \in S : \A y \in S : x <= y IN IF txt[j] = "]" THEN j - q + 1 ELSE 0
RECURSIVE Squeeze(_)
Squeeze(sq) == IF sq = << >> THEN << >> ELSE IF Head(sq) \in {" ", "\n"} THEN Squeeze(Tail(sq)) ELSE <<Head(sq)>> \o Squeeze(Tail(sq))
(* the only defined label is "a", surrounded by any amount of whitespace (labels are compared trimmed, inner whitespace collapsed) *)
Defined(lab) == Squeeze(lab) \in {<<"a">>, <<"A">>}              \* (and case-folded)
BracketIn(a, b) == \E i \in a..b : txt[i] \in {"[", "]"} /\ ~EscapedAt(i)         \* an unescaped bracket between positions a and b

CA == {"a", "[", "]", "!", "`"}                    \* code spans next to brackets and exclamation marks
EA == {"a", "[", "]", "!", "\\"}                   \* backslash escapes next to brackets and exclamation marks
NA == {"a", "[", "]", "(", ")", "\n"}          \* (a configuration file cannot spell a line end)
Top == br[Len(br)]
Pop == SubSeq(br, 1, Len(br) - 1)

RInit ==
    /\ txt \in {t \in UNION {[1..n -> RAlphabet] : n \in 1..RMaxLen} :
                  t[1] \notin {" ", "\n"} /\ t[Len(t)] \notin {" ", "\n"} /\ (\A i \in 1..(Len(t) - 1) : ~(t[i] = "\n" /\ t[i + 1] = "\n"))
                  /\ ~(Len(t) >= 3 /\ t[1] = "`" /\ t[2] = "`" /\ t[3] = "`")                   \* (no code fence)
                  /\ (IOEnv.SHARD = "-" \/ t[1] = IOEnv.SHARD)}          \* (one paragraph: no blank line)
    /\ pos = 1 /\ br = << >> /\ out = << >> /\ phase = "scan"

Literal == /\ out' = Append(out, C(pos)) /\ pos' = pos + 1

ScanOther ==
    /\ phase = "scan" /\ pos <= Len(txt) /\ txt[pos] \notin {"[", "]", "`"} /\ ~(txt[pos] = "!" /\ At(pos + 1) = "[")
    /\ ~(txt[pos] = "\\" /\ At(pos + 1) \in Punct)
    /\ Literal /\ UNCHANGED <<txt, br, phase>>
(* a code span: a run of n backticks up to the next run of exactly n backticks; what it covers is not scanned (a bracket inside is
   no bracket).  Without a closing run the backticks are literal text. *)
RECURSIVE TickRun(_)
TickRun(i) == IF At(i) = "`" THEN 1 + TickRun(i + 1) ELSE 0
CodeClose(i, n) == LET S == {q \in (i + n)..Len(txt) : txt[q] = "`" /\ txt[q - 1] # "`" /\ TickRun(q) = n} IN
                   IF S = {} THEN 0 ELSE CHOOSE q \in S : \A q2 \in S : q <= q2
CodeText(a, b) == LET c == Flat(SubSeq(txt, a, b))
                      allsp == \A q \in a..b : txt[q] = " " IN
                  IF Len(c) >= 2 /\ txt[a] = " " /\ txt[b] = " " /\ ~allsp THEN Flat(SubSeq(txt, a + 1, b - 1)) ELSE c
ScanCode ==
    /\ phase = "scan" /\ pos <= Len(txt) /\ txt[pos] = "`"
    /\ LET n == TickRun(pos) c == CodeClose(pos, n) IN
       IF c > 0 THEN /\ out' = Append(out, Mark("code", CodeText(pos + n, c - 1), "")) /\ pos' = c + n
                ELSE /\ out' = out \o [q \in 1..n |-> C(pos + q - 1)] /\ pos' = pos + n
    /\ UNCHANGED <<txt, br, phase>>
(* an escape sequence: the backslash goes, the character is literal text *)
ScanEscape ==
    /\ phase = "scan" /\ pos < Len(txt) /\ txt[pos] = "\\" /\ txt[pos + 1] \in Punct
    /\ out' = Append(out, C(pos + 1)) /\ pos' = pos + 2
    /\ UNCHANGED <<txt, br, phase>>
ScanOpen ==
    /\ phase = "scan" /\ pos <= Len(txt) /\ txt[pos] = "["
    /\ br' = Append(br, [idx |-> pos, img |-> FALSE, active |-> TRUE, o |-> Len(out) + 1])
    /\ Literal /\ UNCHANGED <<txt, phase>>
ScanImageOpen ==
    /\ phase = "scan" /\ pos < Len(txt) /\ txt[pos] = "!" /\ txt[pos + 1] = "["
    /\ br' = Append(br, [idx |-> pos + 1, img |-> TRUE, active |-> TRUE, o |-> Len(out) + 1])
    /\ out' = out \o <<C(pos), C(pos + 1)>> /\ pos' = pos + 2
    /\ UNCHANGED <<txt, phase>>
(* the label looked up at the closing bracket pos with opener t, and how many characters behind "]" the reference consumes *)
RefAt(t) ==
    LET n == LabelLen(pos + 1)
        inner == SubSeq(txt, t.idx + 1, pos - 1) IN
    IF n > 2 THEN [lab |-> SubSeq(txt, pos + 2, pos + n - 1), eat |-> n, ok |-> TRUE]
    ELSE IF ~BracketIn(t.idx + 1, pos - 1) THEN [lab |-> inner, eat |-> n, ok |-> TRUE]
    ELSE [lab |-> << >>, eat |-> 0, ok |-> FALSE]
(* an inline destination behind the closing bracket: "(", a run whose parentheses balance (the alphabets hold no space, so there is
   no title), ")".  Position of the closing parenthesis or 0. *)
Ws == {" ", "\n"}
RECURSIVE SkipWs(_)
SkipWs(i) == IF At(i) \in Ws THEN SkipWs(i + 1) ELSE i
(* first position behind a plain destination that starts at i (it ends at whitespace or at the parenthesis that closes the link);
   0 if its parentheses do not balance *)
RECURSIVE DestRunEnd(_, _)
DestRunEnd(i, depth) == IF i > Len(txt) \/ txt[i] \in Ws THEN (IF depth = 0 THEN i ELSE 0)
                        ELSE IF txt[i] = "(" THEN DestRunEnd(i + 1, depth + 1)
                        ELSE IF txt[i] = ")" THEN (IF depth = 0 THEN i ELSE DestRunEnd(i + 1, depth - 1))
                        ELSE DestRunEnd(i + 1, depth)
(* a title in parentheses that starts at i: position of its closing parenthesis (no parenthesis inside), or 0 *)
ParenTitleEnd(i) == LET S == {j \in (i + 1)..Len(txt) : txt[j] \in {"(", ")"}} IN
                    IF S = {} THEN 0 ELSE LET j == CHOOSE x \in S : \A y \in S : x <= y IN IF txt[j] = ")" THEN j ELSE 0
RECURSIVE HrefEnc(_)
HrefEnc(sq) == IF sq = << >> THEN "" ELSE (CASE Head(sq) = "[" -> "%5B" [] Head(sq) = "]" -> "%5D" [] OTHER -> Head(sq)) \o HrefEnc(Tail(sq))
(* "(" whitespace* destination [whitespace+ title] whitespace* ")" behind the closing bracket at pos *)
InlineAt ==
    LET d0 == SkipWs(pos + 2)
        d1 == DestRunEnd(d0, 0)
        t0 == SkipWs(d1)
        hasT == d1 > 0 /\ t0 > d1 /\ At(t0) = "("
        tE == IF hasT THEN ParenTitleEnd(t0) ELSE 0
        e == IF hasT THEN (IF tE > 0 THEN SkipWs(tE + 1) ELSE 0) ELSE t0 IN
    IF At(pos + 1) = "(" /\ d1 > 0 /\ e > 0 /\ At(e) = ")"
    THEN [ok |-> TRUE, end |-> e, href |-> HrefEnc(SubSeq(txt, d0, d1 - 1)), title |-> IF hasT THEN Flat(SubSeq(txt, t0 + 1, tE - 1)) ELSE ""]
    ELSE [ok |-> FALSE, end |-> 0, href |-> "", title |-> ""]
(* how the closing bracket at pos resolves with opener t: inline link first, then the reference forms *)
Res(t) ==
    LET il == InlineAt
        r == RefAt(t) IN
    IF il.ok THEN [ok |-> TRUE, eat |-> il.end - pos, href |-> il.href, title |-> il.title]
    ELSE [ok |-> r.ok /\ Defined(r.lab), eat |-> r.eat, href |-> "/u", title |-> ""]
ScanCloseNone ==
    /\ phase = "scan" /\ pos <= Len(txt) /\ txt[pos] = "]" /\ br = << >>
    /\ Literal /\ UNCHANGED <<txt, br, phase>>
ScanCloseInactive ==
    /\ phase = "scan" /\ pos <= Len(txt) /\ txt[pos] = "]" /\ br # << >> /\ ~Top.active
    /\ br' = Pop /\ Literal /\ UNCHANGED <<txt, phase>>
ScanCloseMatch ==
    /\ phase = "scan" /\ pos <= Len(txt) /\ txt[pos] = "]" /\ br # << >> /\ Top.active
    /\ LET t == Top r == Res(t) IN
       /\ r.ok
       /\ out' = SubSeq(out, 1, t.o - 1) \o <<Mark(IF t.img THEN "ia" ELSE "la", r.href, r.title)>>
                 \o SubSeq(out, t.o + (IF t.img THEN 2 ELSE 1), Len(out)) \o <<Mark(IF t.img THEN "iz" ELSE "lz", "", r.title)>>
       /\ pos' = pos + 1 + r.eat
       /\ br' = IF t.img THEN Pop ELSE [i \in 1..(Len(br) - 1) |-> IF br[i].img THEN br[i] ELSE [br[i] EXCEPT !.active = FALSE]]
    /\ UNCHANGED <<txt, phase>>
ScanCloseNoMatch ==
    /\ phase = "scan" /\ pos <= Len(txt) /\ txt[pos] = "]" /\ br # << >> /\ Top.active
    /\ ~Res(Top).ok
    /\ br' = Pop /\ Literal /\ UNCHANGED <<txt, phase>>
Finish == /\ phase = "scan" /\ pos > Len(txt) /\ phase' = "done" /\ UNCHANGED <<txt, pos, br, out>>

RNext == ScanOther \/ ScanEscape \/ ScanCode \/ ScanOpen \/ ScanImageOpen \/ ScanCloseNone \/ ScanCloseInactive \/ ScanCloseMatch \/ ScanCloseNoMatch \/ Finish
RSpec == RInit /\ [][RNext]_rvars

---------------------------------------------------------------------------
(* invariants *)
RTypeOK ==
    /\ pos \in 1..(Len(txt) + 1) /\ phase \in {"scan", "done"}
    /\ \A i \in DOMAIN br : br[i].idx < pos /\ txt[br[i].idx] = "[" /\ br[i].o \in DOMAIN out
                            /\ out[br[i].o] = C(IF br[i].img THEN br[i].idx - 1 ELSE br[i].idx)
    /\ \A i \in 1..(Len(br) - 1) : br[i].idx < br[i + 1].idx /\ br[i].o < br[i + 1].o
(* the characters of the output are source positions in increasing order *)
RECURSIVE Positions(_)
Positions(o) == IF o = << >> THEN << >> ELSE (IF Head(o).k = "c" THEN <<Head(o).p>> ELSE << >>) \o Positions(Tail(o))
InOrder == LET ps == Positions(out) IN \A i \in 1..(Len(ps) - 1) : ps[i] < ps[i + 1]
(* markers are nested properly, and no link stands inside a link *)
RECURSIVE Depths(_, _, _)
Depths(o, stack, ok) ==
    IF o = << >> THEN ok /\ stack = << >>
    ELSE LET h == Head(o) IN
         IF h.k \in {"la", "ia"} THEN Depths(Tail(o), Append(stack, h.k), ok /\ ~(h.k = "la" /\ \E i \in DOMAIN stack : stack[i] = "la"))
         ELSE IF h.k \in {"lz", "iz"} THEN
             IF stack # << >> /\ stack[Len(stack)] = (IF h.k = "lz" THEN "la" ELSE "ia") THEN Depths(Tail(o), SubSeq(stack, 1, Len(stack) - 1), ok) ELSE FALSE
         ELSE Depths(Tail(o), stack, ok)
WellNested == Depths(out, << >>, TRUE)
(* an inactive opener is a link opener, and a link has been closed behind it *)
InactiveHasLink == \A i \in DOMAIN br : ~br[i].active => (~br[i].img /\ \E j \in (br[i].o + 1)..Len(out) : out[j].k = "lz")

---------------------------------------------------------------------------
(* rendering: inside an image only the text counts (the alt attribute) *)
RECURSIVE Render(_, _)
Render(o, imgDepth) ==
    IF o = << >> THEN ""
    ELSE LET h == Head(o) IN
         (CASE h.k = "c"  -> txt[h.p]
            [] h.k = "code" -> IF imgDepth = 0 THEN "<code>" \o h.d \o "</code>" ELSE h.d
            [] h.k = "la" -> IF imgDepth = 0 THEN "<a href=\"" \o h.d \o "\"" \o (IF h.tt = "" THEN "" ELSE " title=\"" \o h.tt \o "\"") \o ">" ELSE ""
            [] h.k = "lz" -> IF imgDepth = 0 THEN "</a>" ELSE ""
            [] h.k = "ia" -> IF imgDepth = 0 THEN "<img src=\"" \o h.d \o "\" alt=\"" ELSE ""
            [] OTHER      -> IF imgDepth = 1 THEN "\"" \o (IF h.tt = "" THEN "" ELSE " title=\"" \o h.tt \o "\"") \o " />" ELSE "")
         \o Render(Tail(o), IF h.k = "ia" THEN imgDepth + 1 ELSE IF h.k = "iz" THEN imgDepth - 1 ELSE imgDepth)

(* a closing bracket followed by brackets that hold only spaces: the text (a link label needs a non-blank character, so a
   shortcut applies) and the reference procedure (the blank label is looked up and fails) disagree; not judged *)
RECURSIVE SpacesThenClose(_)
SpacesThenClose(q) == IF At(q) = " " THEN SpacesThenClose(q + 1) ELSE At(q) = "]"
RTags == IF \E p \in 1..Len(txt) : txt[p] = "]" /\ At(p + 1) = "[" /\ At(p + 2) = " " /\ SpacesThenClose(p + 2)
         THEN {"unsettled-blank-label-behind-shortcut"} ELSE {}

RExport == phase = "done" => PrintT(ToJson([input |-> Flat(txt), html |-> Render(out, 0), tags |-> RTags]))
=============================================================================
