---------------------------- MODULE EmphasisImpl ----------------------------
(***************************************************************************)
(* Implementation tier for C06 / C01: the delimiter processing loop shaped *)
(* like core_tokens.process_emphasis (as repaired by the fix: commits):    *)
(* a Python list of delimiter runs addressed by 0-based indexes, a current *)
(* position that is patched arithmetically after each removal, and opener  *)
(* bottoms kept as list indexes in a dictionary keyed by the kind of       *)
(* closer (character, can-open, original length mod 3).                    *)
(*                                                                         *)
(* It runs in lock-step with the property-tier machine of Emphasis.tla on  *)
(* the same input.  TLC checks on every reachable state that               *)
(*   IndexesInRange  no index leaves the list (this is the IndexError of   *)
(*                   '**a****b*'),                                         *)
(*   NoEmptyRun      no run of length 0 stays on the list,                 *)
(* and, when both machines are done, Refines: the matches are the same.    *)
(* This is a design-level result about the algorithm; a later disagreement *)
(* between the code and this module that leaves C06 intact is drift.       *)
(***************************************************************************)
EXTENDS Emphasis

VARIABLES dl,        \* the list of delimiter runs (1-based here, the code's index i is dl[i + 1])
          pos,       \* curr_pos, 0-based; -1 stands for None
          bottoms,   \* openers_bottom: kind -> 0-based index, -1 = None / absent
          ms, ph
ivars == <<dl, pos, bottoms, ms, ph>>

Kinds3 == {"*", "_"} \X BOOLEAN \X (0..2)
KindOf(c) == <<c.ch, c.open, c.orig % 3>>

NextCloser(lst, start) ==
    LET C == {i \in (IF start < 0 THEN 0 ELSE start)..(Len(lst) - 1) : lst[i + 1].close} IN
    IF C = {} THEN -1 ELSE CHOOSE i \in C : \A j \in C : i <= j

(* delimiters[curr_pos-1 : bottom : -1] *)
MatchingOpener(lst, cp, bottom) ==
    IF cp <= 0 THEN -1
    ELSE LET C == {i \in (bottom + 1)..(cp - 1) : Matches(lst[i + 1], lst[cp + 1])} IN
         IF C = {} THEN -1 ELSE CHOOSE i \in C : \A j \in C : i >= j

IInit ==
    /\ dl = Runs(input)
    /\ pos = NextCloser(Runs(input), -1)
    /\ bottoms = [k \in Kinds3 |-> -1]
    /\ ms = {}
    /\ ph = "run"

DelRange(lst, a, b) == SubSeq(lst, 1, a) \o SubSeq(lst, b + 1, Len(lst))      \* del lst[a:b], 0-based half-open

IStep ==
    /\ ph = "run"
    /\ IF pos = -1
       THEN ph' = "done" /\ UNCHANGED <<dl, pos, bottoms, ms>>
       ELSE LET closer == dl[pos + 1]
                kind == KindOf(closer)
                op == MatchingOpener(dl, pos, bottoms[kind]) IN
            IF op # -1
            THEN LET opener == dl[op + 1]
                     w == IF Num(closer) >= 2 /\ Num(opener) >= 2 THEN 2 ELSE 1
                     l1 == DelRange(dl, op + 1, pos)                  \* remove everything between; closer now at op + 1
                     b1 == [k \in Kinds3 |-> IF bottoms[k] > op THEN op ELSE bottoms[k]]
                     openerGone == Num(opener) = w
                     closerGone == Num(closer) = w
                     o2 == [opener EXCEPT !.e = opener.e - w]
                     c2 == [closer EXCEPT !.s = closer.s + w]
                     l2 == IF openerGone THEN DelRange(l1, op, op + 1) ELSE [l1 EXCEPT ![op + 1] = o2]
                     cpos2 == IF openerGone THEN op ELSE op + 1       \* where the closer sits now
                     b2 == IF openerGone THEN [k \in Kinds3 |-> IF b1[k] >= op THEN (IF b1[k] > 0 THEN b1[k] - 1 ELSE -1) ELSE b1[k]] ELSE b1
                     l3 == IF closerGone THEN DelRange(l2, cpos2, cpos2 + 1) ELSE [l2 EXCEPT ![cpos2 + 1] = c2]
                     cp3 == IF closerGone THEN cpos2 - 1 ELSE cpos2
                     cp4 == IF cp3 < 0 THEN 0 ELSE cp3 IN
                 /\ ms' = ms \cup {[os |-> opener.e - w + 1, cs |-> closer.s, w |-> w]}
                 /\ dl' = l3 /\ bottoms' = b2
                 /\ pos' = NextCloser(l3, cp4)
                 /\ UNCHANGED ph
            ELSE /\ bottoms' = [bottoms EXCEPT ![kind] = IF pos > 1 THEN pos - 1 ELSE -1]
                 /\ IF ~closer.open
                    THEN dl' = DelRange(dl, pos, pos + 1) /\ pos' = NextCloser(DelRange(dl, pos, pos + 1), pos)
                    ELSE dl' = dl /\ pos' = NextCloser(dl, pos + 1)
                 /\ UNCHANGED <<ms, ph>>

LockInit == Init /\ IInit
LockNext == /\ (Step \/ (phase = "done" /\ UNCHANGED vars))
            /\ (IStep \/ (ph = "done" /\ UNCHANGED ivars))
            /\ ~(phase = "done" /\ ph = "done")

IndexesInRange ==
    /\ pos \in -1..(Len(dl) - 1)
    /\ \A k \in Kinds3 : bottoms[k] \in -1..(Len(dl) - 1) \/ ph = "done"
NoEmptyRun == \A i \in DOMAIN dl : Num(dl[i]) >= 1
Refines == (phase = "done" /\ ph = "done") => ms = matches
=============================================================================
