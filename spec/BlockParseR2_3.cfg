CONSTANTS
  Alphabet = {"> [a]: /u", "  [a]: /u", "    [a]: /u", "[a]: <w x>", "[a]: /u (t)", "[a]: /u (t(u))", "[a] b", "> [a]", "# [a]", "[a]: /u", "", "---", "- [a]: /u", "  (u)", "[a]:/u"}
  MaxLines = 3
SPECIFICATION Spec
INVARIANT TypeOK
INVARIANT StateIsParse
INVARIANT Ordered2
INVARIANT Nested
INVARIANT QuoteLaw
INVARIANT ListLaw
INVARIANT ConcatLaw
INVARIANT Export
CHECK_DEADLOCK FALSE
