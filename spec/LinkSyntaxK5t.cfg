CONSTANTS
  Alphabet = {"a"}
  MaxLen = 0
  RawAlphabet = {"a"}
  RawMaxLen = 1
  TailAlphabet <- K5
  TailMaxLen = 7
SPECIFICATION LSpec
INVARIANT NextInRange
INVARIANT LExport
CHECK_DEADLOCK FALSE
