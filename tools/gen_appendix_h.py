#!/usr/bin/env python3
"""Regenerate appendix H of DESIGN.md (recorded findings and repairs) from known_findings.json."""
import json, os
V = os.path.dirname(os.path.dirname(os.path.abspath(__file__)))
k = json.load(open(os.path.join(V, 'known_findings.json')))
rows = []
for f in k['findings']:
    esc = lambda s: str(s).replace('|', '\\|').replace('\n', ' ')
    rows.append('| %s | `%s` | %s | %s |' % (f['property'], f['id'], esc(json.dumps(f['match'], ensure_ascii=False)), esc(f['what'])))
fixed = ['* ' + x.replace('\n', ' ') for x in k['fixed']]
text = '''## Appendix H - recorded findings and repairs (generated from known_findings.json)

%d recorded findings (each entry: property, identifier, what identifies the failing input or class, what fails). A check prints one
`KNOWN-FINDING:` line per entry it observes and exits 0; a violation that matches no entry is reported as `VIOLATION`. Classes named
`class` are decided by tags the specification computes (`DocGen`, `BlockParse`, `InlineScan`), never by reading the implementation.

| property | id | match | what fails |
|---|---|---|---|
%s

%d repairs (`fix:` commits in `/repo`; a fixed entry suppresses nothing):

%s
''' % (len(k['findings']), '\n'.join(rows), len(k['fixed']), '\n'.join(fixed))
p = os.path.join(V, 'DESIGN.md')
s = open(p).read()
i = s.find('## Appendix H')
if i < 0:
    j = s.index('## Appendix G')
    s = s[:j] + text + '\n' + s[j:]
else:
    j = s.index('## Appendix G')
    if i < j:
        s = s[:i] + text + '\n' + s[j:]
    else:
        s = s[:i] + text
open(p, 'w').write(s)
print('appendix H: %d findings, %d repairs' % (len(k['findings']), len(k['fixed'])))
