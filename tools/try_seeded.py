#!/venv/bin/python
"""
Confirm a seeded breaking change and run the checks against it.

  tools/try_seeded.py <name> <worktree> <property> [check ids...]

The worktree (outside /repo and /verif) holds the change applied, patch.diff and demo.py.
Steps: (1) the pinned test suite passes with the change; (2) demo.py fails with the change and
passes without it; (3) each named check (default: the property's own check) is run with
VERIF_REPO=<worktree> in the quick tier; (4) everything is stored under seeded/<name>/.
"""
import json
import os
import shutil
import subprocess
import sys
import time

VERIF = os.path.dirname(os.path.dirname(os.path.abspath(__file__)))


def sh(cmd, cwd, env=None, timeout=3600):
    p = subprocess.run(cmd, cwd=cwd, shell=True, stdout=subprocess.PIPE, stderr=subprocess.STDOUT, text=True, timeout=timeout,
                       env=dict(os.environ, **(env or {})))
    return p.returncode, p.stdout


def main():
    name, wt, prop = sys.argv[1:4]
    checks = sys.argv[4:] or [prop]
    meta = {'name': name, 'property': prop, 'ran': []}
    rc, out = sh('git diff --stat; git diff -- mistletoe > patch.diff; git status --short | head', wt)
    rc, out = sh('/venv/bin/python -m pytest -q -p no:cacheprovider 2>&1 | tail -2', wt)
    meta['tests_with_change'] = out.strip().splitlines()[-1] if out.strip() else ''
    ok_tests = ' passed' in out and 'failed' not in out
    rc_with, out_with = sh('/venv/bin/python demo.py', wt, timeout=600)
    sh('git apply -R patch.diff', wt)
    rc_without, out_without = sh('/venv/bin/python demo.py', wt, timeout=600)
    sh('git apply patch.diff', wt)
    meta['demo_with_change'] = {'exit': rc_with, 'tail': out_with[-600:]}
    meta['demo_without_change'] = {'exit': rc_without, 'tail': out_without[-300:]}
    confirmed = ok_tests and rc_with != 0 and rc_without == 0
    meta['confirmed'] = confirmed
    print('tests:', meta['tests_with_change'], '| demo with change exit', rc_with, '| without', rc_without, '| confirmed', confirmed)
    results = {}
    for c in checks:
        t0 = time.time()
        rc, out = sh('./check %s --tier quick' % c, VERIF, env={'VERIF_REPO': wt})
        viol = [l for l in out.splitlines() if l.startswith('VIOLATION')]
        first = ''
        lines = out.splitlines()
        for i, l in enumerate(lines):
            if l.startswith('VIOLATION') and i + 1 < len(lines):
                first = lines[i + 1].strip()[:500]
                break
        results[c] = {'exit': rc, 'violations_printed': len(viol), 'first': first, 'wall_s': round(time.time() - t0, 1),
                      'last_line': lines[-1][:300] if lines else ''}
        print(c, 'exit', rc, 'violations', len(viol), first[:200])
    meta['checks'] = results
    meta['detected_by'] = sorted(c for c, r in results.items() if r['exit'] == 1)
    dst = os.path.join(VERIF, 'seeded', name)
    os.makedirs(dst, exist_ok=True)
    shutil.copy(os.path.join(wt, 'patch.diff'), os.path.join(dst, 'patch.diff'))
    shutil.copy(os.path.join(wt, 'demo.py'), os.path.join(dst, 'demo.py'))
    old = {}
    if os.path.exists(os.path.join(dst, 'meta.json')):
        old = json.load(open(os.path.join(dst, 'meta.json')))
    old.update(meta)
    json.dump(old, open(os.path.join(dst, 'meta.json'), 'w'), indent=1)
    # evidence files were rewritten by runs against the worktree: they are not evidence about /repo
    print('stored in', dst)


main()
