#!/usr/bin/env python3
"""
The table `Named` of spec/InlineScan.tla: the HTML5 entity names (WHATWG table as shipped in Python's html.entities, the table
CommonMark refers to) that can be spelled with the letters of the entity alphabets E1-E4, each with the text it stands for;
characters outside printable ASCII are written {U+XXXX}.  Prints the TLA+ definition; `--check` compares it with the module.
"""
import re
import sys
from html.entities import html5

LETTERS = 'ampltx'


def notation(s):
    return ''.join(c if 32 <= ord(c) < 127 else '{U+%04X}' % ord(c) for c in s)


def table():
    names = sorted(n[:-1] for n in html5 if n.endswith(';') and re.fullmatch('[%s]{1,6}' % LETTERS, n[:-1]))
    return 'Named == ' + ' @@ '.join('"%s" :> "%s"' % (n, notation(html5[n + ';']).replace('\\', '\\\\').replace('"', '\\"')) for n in names)


def in_module(path='/verif/spec/InlineScan.tla'):
    return re.search(r'^Named == .*$', open(path).read(), re.M).group(0)


if __name__ == '__main__':
    if '--check' in sys.argv:
        sys.exit(0 if table() == in_module() else 1)
    print(table())
