#!/usr/bin/env python3
"""Regenerate appendix G of DESIGN.md (the table of seeded changes) from seeded/*/meta.json."""
import json, os, re
V = os.path.dirname(os.path.dirname(os.path.abspath(__file__)))
rows = []
names = sorted(os.listdir(os.path.join(V, 'seeded')))
for d in names:
    m = json.load(open(os.path.join(V, 'seeded', d, 'meta.json')))
    prop = m.get('property', d.split('-')[1])
    checks = m.get('checks', {})
    rep = []
    for c in sorted(checks):
        r = checks[c]
        if r.get('exit') == 1:
            first = (r.get('first') or '').split(':')[0][:60]
            rep.append('%s (%s)' % (c, first) if first else c)
    silent = sorted(c for c, r in checks.items() if r.get('exit') == 0)
    esc = lambda s: (s or '').replace('|', '\\|').replace('\n', ' ')
    first_run = m.get('first_run_detected')
    needs = esc(m.get('needs_to_manifest'))
    if m.get('retired'):
        needs = (needs + ' **Retired** ' + esc(m['retired'])).strip()
    rows.append('| `%s` | %s | %s | %s | %s | %s |' % (d, prop, esc(m.get('change')), needs, ', '.join(rep), ', '.join(silent) or '-'))
retired = sum(1 for d in names if json.load(open(os.path.join(V, 'seeded', d, 'meta.json'))).get('retired'))
n = len(names)
own = sum(1 for d in names if json.load(open(os.path.join(V, 'seeded', d, 'meta.json'))).get('checks', {}).get(json.load(open(os.path.join(V, 'seeded', d, 'meta.json'))).get('property'), {}).get('exit') == 1)
intro = '''## Appendix G - seeded changes and which checks report them

%d breaking changes are stored: five per property written by independent sub-agents (`-a`: first round; `-b`, `-c`, `-e`, `-f`:
second to fifth round, each told the ideas of the earlier rounds), 18 more of a sixth round (`-g`) and two self-made probes (`-d`)
for clauses no sub-agent change had reached. Each agent saw only the text of its property and a scratch git worktree of `/repo` (nothing from `/verif`) and was
asked for a realistic change that passes the 333 tests but breaks the property and needs something specific to manifest. I
confirmed each one myself in a scratch worktree (suite green with the change; the demonstration fails with it and passes without
it) before keeping it under `seeded/<name>/` (`patch.diff`, `demo.py`, `meta.json`). `tools/rerun_seeded.py` re-applies every
stored change to a fresh worktree of the current `/repo` HEAD and runs the checks with `VERIF_REPO=<worktree>`; nothing is ever
applied to `/repo` itself. At the last full re-run %d of %d are reported by the check of their own property (%d retired: a later repair removed what it relied on). In the third and
fourth round 8 of the 19 changes each were silent at first, in the fifth 7 of 19, in the sixth 5 of 18; `needs` names what was
added to the specification or the inputs for each (section 0.8); no oracle was weakened. A dozen patches were re-written after
`fix:` commits changed the lines they touch (`rebased` in their `meta.json`).

| name | property | change | needs (to manifest) / what was added | reported by (first clause) | run but silent |
|---|---|---|---|---|---|
''' % (n, own, n, retired)
p = os.path.join(V, 'DESIGN.md')
s = open(p).read()
i = s.index('## Appendix G')
open(p, 'w').write(s[:i] + intro + '\n'.join(rows) + '\n')
print('appendix G: %d rows, %d reported by their own check' % (n, own))
