#!/usr/bin/env python3-vt
"""
Development aid: read every document of a BlockParse configuration with TLC, render each with the real parser and list the
disagreements by class (tags).   tools/probe_blockparse.py BlockParseS2_5.cfg [max shown]
Not a registered check; the registered checks (C03, C13, C07) run the same comparison.
"""
import collections
import sys
from concurrent.futures import ThreadPoolExecutor

sys.path.insert(0, '/verif')
from harness import blockparse, core, docgen, htmlnorm   # noqa: E402


def main():
    cfg = sys.argv[1]
    show = int(sys.argv[2]) if len(sys.argv) > 2 else 12
    n = blockparse.alphabet_size(cfg)

    def one(k):
        return core.tlc('BlockParse', cfg, workers=1, env={'SHARD': str(k), 'LAWS': 'on'}, timeout=3000, heap='2g')
    with ThreadPoolExecutor(max_workers=core.NCPU) as ex:
        results = list(ex.map(one, range(1, n + 1)))
    m = core.impl()
    seen, bad, total = set(), collections.defaultdict(list), 0
    for r in results:
        if r.error or not r.completed:
            print('TLC', r.rc, (r.error or r.out[-600:]))
        for d in r.printed_json():
            if d['src'] in seen:
                continue
            seen.add(d['src'])
            total += 1
            tags = set(d['tags'])
            want = htmlnorm.normalize(d['html'])
            got = htmlnorm.normalize(docgen.render_html(m, d['src']))
            if got != want:
                cls = 'unsettled' if tags & blockparse.UNSETTLED_TAGS else ','.join(sorted(tags & blockparse.FINDING_TAGS)) or 'UNTAGGED'
                bad[cls].append((d['src'], want, got, sorted(tags)))
    print('%d documents' % total)
    for cls, items in sorted(bad.items()):
        print('== %s: %d' % (cls, len(items)))
        if cls == 'UNTAGGED':
            for src, want, got, tags in sorted(items, key=lambda x: len(x[0]))[:show]:
                print('  %r\n     want %r\n     got  %r  %s' % (src, want, got, tags))


main()
