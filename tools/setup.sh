#!/bin/sh
# Offline setup: nothing to build; parse every specification module and run a TLC smoke test.
set -e
cd "$(dirname "$0")/../spec"
for f in *.tla; do
  tla-sany "$f" > /tmp/.sany.$$ 2>&1 || { cat /tmp/.sany.$$; rm -f /tmp/.sany.$$; echo "SANY failed on $f"; exit 1; }
  if grep -q "Semantic errors\|\*\*\* Errors" /tmp/.sany.$$; then cat /tmp/.sany.$$; rm -f /tmp/.sany.$$; echo "SANY errors in $f"; exit 1; fi
done
rm -f /tmp/.sany.$$
mkdir -p ../.work ../evidence
echo "setup ok: $(ls *.tla | wc -l) TLA+ modules parsed"
