#!/usr/bin/env python3-vt
"""Regenerates MANIFEST.json from the table below and validates it against the schema."""
import json, os, sys
VERIF = os.path.dirname(os.path.dirname(os.path.abspath(__file__)))
ALL = ['C%02d' % i for i in range(1, 20)]

CHECKS = {
 'C01': dict(level='exploration', ref='3/C01', technique='TLA+ outcome specification (Totality) judged by TLC on recorded call outcomes (trace validation); inputs enumerated/sampled by the harness',
   text='Every call outcome (return / exception class / timeout, with the enabling facts of the three admissible refusals) is judged by TLC against Totality.tla; inputs are exhaustive over small alphabets to a length bound and sampled otherwise.',
   note='Trusted: the per-call SIGALRM budget, the syntactic enabling facts computed in harness/c01.py, TLC. Identical outcome projections are merged before TLC judges them.'),
 'C02': dict(level='exploration', ref='3/C02', technique='TLA+ trace acceptor over the vendored corpus (Corpus.tla: Render(e) enabled only with the expected output; completeness invariant), TLC',
   text='All 652 examples are rendered on every run and the trace is consumed by Corpus.tla; exhaustive over the finite corpus. The oracle is data (the vendored corpus), the specification adds equality and completeness book-keeping.',
   note='Trusted: harness/htmlnorm.py (applied to both sides), the vendored corpus (sha256 pinned), TLC.'),
 'C03': dict(level='model_checking', ref='3/C03', technique='TLA+ typing model of Markdown documents (DocGen.tla) explored by TLC exhaustively within small bounds and in simulation mode; every generated behaviour (source + HTML of the intended tree, both written by the specification) replayed into the real parser/renderer (spec -> code); plus a TLA+ line-by-line reader of CommonMark block structure (BlockParse.tla, one action per input line) explored by TLC over every line sequence of <= 3/4 lines over nine line alphabets and in simulation mode, each document with the HTML of the tree the specification assigns to it replayed into the real parser',
   text='DocGen.tla types documents action by action under CommonMark guards and writes source text and expected HTML itself; TLC checks its type, line-order and first-wins invariants and exports every finished document; the harness renders each source with the real HtmlRenderer and compares after CommonMark test normalisation. BlockParse.tla reads arbitrary line sequences (container matching, block starts in order of precedence, lazy continuation, tight/loose) and TLC checks its own invariants and the laws of C04/C05 on the model (QuoteLaw, ListLaw, ConcatLaw) for every document; documents of recorded finding classes are identified by tags the specification computes.',
   note='Trusted: the CommonMark rules transcribed as guards of DocGen.tla (validated against the unchanged parser and the specification text; every disagreement was triaged), harness/htmlnorm.py; the reading rules of BlockParse.tla (CommonMark 0.30 appendix A, validated against the unchanged parser: 190,000 documents of <= 4 lines and 38,000 random longer ones agree outside the recorded classes; one class the specification text does not settle is tagged and not judged).'),
 'C04': dict(level='exploration', ref='3/C04', technique='TLA+ law (Laws!QuoteLaw, Laws!ListLaw) judged by TLC on recorded parses (trace validation)',
   text='Every recorded (base parse, embedded parse) pair is judged by TLC against the embedding laws; inputs are sampled (corpus, mutations, splices, random), so this is exploration with a TLA+ oracle, not exhaustive.',
   note='Trusted: the textual embedding functions and the token projection in harness/; TLC. Texts with whitespace-only lines are outside the list law.'),
 'C05': dict(level='exploration', ref='3/C05', technique='TLA+ law (Laws!ConcatLaw with line shift) judged by TLC on recorded parses (trace validation)',
   text='Every recorded triple (parse A, parse B, parse A+blank+B) is judged by TLC against the concatenation law including line numbers; pairs are sampled.',
   note='Trusted: token projection in harness/proj.py; side conditions are decided from the real parse of A and B alone, as the property phrases them.'),
 'C06': dict(level='model_checking', ref='3/C06', technique='TLA+ model of the CommonMark 0.30 delimiter algorithm (Emphasis.tla) explored exhaustively by TLC; every behaviour replayed into the real parser (spec -> code); InlineLinks.tla (brackets interleaved with the algorithm) and InlineScan.tla (escapes, code spans, autolinks, all forms of raw HTML and character references protecting what they cover, EXTENDS Emphasis) extend it; LinkSyntax.tla and TagSyntax.tla read link destinations / titles and tag attributes deeper (every tail over small alphabets)',
   text='TLC runs the delimiter algorithm on every string over {a,space,*,_,.} up to length 7/9 and over {a,*},{a,_} up to 12/14, checks laminarity and stack invariants on the model, and exports the expected structure; the harness compares the real HTML for each string. Random wide-alphabet strings are judged through the same model in batch. InlineScan adds every string up to length 5/6 over four raw alphabets with backslash, backtick, angle brackets, colon, slash, underscore (TLC checks that the scanned segments tile the text and that no emphasis boundary falls inside a protected segment).',
   note='Trusted: the transcription of the CommonMark algorithm in Emphasis.tla (validated against the corpus through the unchanged parser and by review), the class table for wide characters, observation through an ATX heading.'),
 'C07': dict(level='model_checking', ref='3/C07', technique='TLA+ typing model (DocGen.tla, definitions and references enabled) with first-definition-wins resolution in the specification; exhaustive placements within bounds + simulation; replayed into the real parser (spec -> code); plus the definition alphabets of BlockParse.tla (definitions read from complete paragraphs: destination or title on the next line, unclosed titles, underlines and block starts below a definition, escapes and character references), HTML and definition table compared; plus RefLinks.tla (the reference forms as the procedure look-for-link-or-image resolves them, every text up to 7/8 characters over a bracket alphabet, replayed into the real parser)',
   text='All documents of <= 3 blocks at nesting <= 1 over paragraphs, definitions, quotes and list items (every placement of definitions relative to uses) and simulated larger ones; the specification resolves references (FirstWins invariant checked by TLC) and writes the expected HTML and definition table; the harness compares real HTML and Document.footnotes.',
   note='Trusted: the label base table of DocGen.tla (case / inner-whitespace variants, near-duplicates); Unicode case folding is outside the model.'),
 'C08': dict(level='exploration', ref='3/C08', technique='TLA+ acceptor for the HTML event stream (HtmlOut.tla: element stack, fixed vocabulary, attribute/text safety classes, escape image table) judged by TLC on recorded renderer outputs (trace validation)',
   text='Real HtmlRenderer outputs (corpus, mutations, random, payload documents x 8 option combinations) are lexed strictly into events and TLC runs the acceptor on every stream; raw HTML regions are set aside by sentinel substitution; the escaping helpers are judged over every Unicode scalar value and for character-wise behaviour.',
   note='Trusted: the strict lexer and the sentinel substitution in harness/c08.py, TLC. Inputs are sampled, helper code points are exhaustive.'),
 'C09': dict(level='exploration', ref='3/C09', technique='TLA+ law (Laws!RoundTripLaw) judged by TLC on recorded render/parse round trips (trace validation)',
   text='Round-trip records (x, y=render(parse x), z, HTML and definitions of x and y) for the 652 corpus examples x normalize_whitespace are judged by TLC; failing corpus examples that the property sets aside are listed individually in known_findings.json.',
   note='Trusted: exact string equality of HtmlRenderer output as "identical HTML"; TLC.'),
 'C10': dict(level='model_checking', ref='3/C10', technique='TLA+ model of the greedy line filler and of reflowable documents (Wrap.tla) checked exhaustively by TLC; every case replayed into fragments_to_lines / the real renderer; results judged by TLC (WrapTrace, Laws!ReflowLaw)',
   text='TLC checks the filler model against Preserved/HardKept/Bound/idempotence for all paragraphs within bounds; each case is replayed into the real fragments_to_lines and the real layout judged by TLC. Documents written by the specification (spelled words under container paths) are reflowed by the real renderer for several L each and TLC judges meaning, word preservation, idempotence and the length bound.',
   note='Trusted: word matching of output lines against the specification-provided word list (harness/c10.py), harness/htmlnorm.py whitespace normalisation, TLC. The greedy layout itself is not demanded.'),
 'C11': dict(level='model_checking', ref='3/C11', technique='TLA+ state machine of the process-wide parser configuration (Registry.tla) explored by TLC; every transition replayed into the real library with per-step state comparison and fresh-interpreter output comparison (spec -> code)',
   text='TLC enumerates all histories up to length 3/4 over enter/exit/render/parse/failing-parse, all transitions modulo model state up to length 5/7 and long simulated histories, checking AfterExitDefaults, CleanAtRest and HistoryFree on the model; each exported history is executed on the real library, the module-level token lists are compared with the model and probe outputs are compared with fresh interpreters at quiescent points.',
   note='Trusted: harness/c11.py replay driver and projections of module-level state; fresh interpreters (one subprocess per probe x renderer). Inside open contexts list differences are drift, not violations.'),
 'C12': dict(level='model_checking', ref='3/C12', technique='TLA+ model of the BFS walker (Traverse.tla) checked exhaustively by TLC and replayed into utils.traverse; TreeShape.tla predicates judged by TLC on dumps of real parses',
   text='Traverse.tla is explored over all trees of <= 4/5 nodes x filters x depth limits x include_source and refines the property-tier ExpectedYields; each case is replayed on a real token tree. Shape, traversal and AST-mirror laws are judged by TLC on dumps of real parses under four token sets (sampled inputs).',
   note='Trusted: the dump of the object graph in harness/c12.py, the child-kind table in TreeShape.tla (taken from the class docstrings), TLC.'),
 'C13': dict(level='model_checking', ref='3/C13', technique='TLA+ typing model (DocGen.tla) records the line on which every block starts; behaviours replayed into the real parser and (class, line_number) sequences compared (spec -> code); the documents read by BlockParse.tla (every short line sequence) carry the start line of every block too',
   text='For every document typed by DocGen.tla (exhaustive small bounds + simulation) the specification knows the line on which it wrote each block; the harness compares with token.line_number of every block token in document order.',
   note='Trusted: the line book-keeping of DocGen.tla (LinesOrdered invariant checked by TLC). A second law (BlockCursorTrace) requires an anchor of every block token on the line it reports, on arbitrary inputs.'),
 'C14': dict(level='model_checking', ref='3/C14', technique='TLA+ model of inert prose (Prose.tla: vocabulary with lexical guards, paragraph typed lexeme by lexeme) explored by TLC exhaustively within bounds and in simulation mode; every paragraph replayed into the real renderer (spec -> code)',
   text='Prose.tla types paragraphs under conservative spec-derived inertness guards and writes text and expected HTML; all paragraphs of one line x <= 2 lexemes and two lines x 1 lexeme (thorough: 3 / 3) plus simulated larger ones are rendered by the real HtmlRenderer and compared for equality.',
   note='Trusted: the inertness guards of Prose.tla (each is a CommonMark block-start or inline-trigger rule, conservative by construction).'),
 'C15': dict(level='exploration', ref='3/C15', technique='TLA+ model of the supply paths (Forms.tla, exhaustive small texts, replayed into the API) plus Laws!FormsLaw / Laws!CliLaw judged by TLC on recorded outputs',
   text='Forms.tla shows all supply paths yield one line list for every text of <= 3 lines over 8 bodies; each such text and sampled corpus/fuzz texts are pushed through str/list/iterator/file/cli.convert and real python -m mistletoe subprocesses; TLC judges output equality and CLI concatenation.',
   note='Trusted: harness/c15.py form drivers; texts with line terminators other than LF are outside the domain.'),
 'C16': dict(level='model_checking', ref='3/C16', technique='TLA+ model of inline conflict resolution (SpanResolve.tla: stated pair rule + fold) checked exhaustively by TLC; every configuration realised with real custom tokens (spec -> code); observed forests judged by TLC (SpanTrace!Cover)',
   text='TLC enumerates every ordered pair of candidates over positions 0..3/0..4 x precedences x parse_inner x parse groups, checks the fold against the stated rule and exports the admissible outcomes; each configuration is run through the real tokenizer with custom SpanToken classes (both list orders for equal starts). Random triples/quadruples go through the model fold in batch; every observed forest (also from random regex tokens over random texts) is judged for tiling by TLC, and scoping after context exit is checked.',
   note='Trusted: the realisation of candidates as SpanToken subclasses with a custom find (the documented override) and the projection by recorded offsets in harness/c16.py; the two cases the statement leaves open are admitted both ways.'),
 'C17': dict(level='exploration', ref='3/C17', technique='TLA+ acceptor and non-interference law over the structural skeleton of LaTeX output (LatexOut.tla: brace depth, environment stack, vocabulary, skeleton equality with the placeholder rendering) judged by TLC on recorded outputs (trace validation)',
   text='Real LaTeXRenderer outputs (corpus, mutations, random, payload documents) are lexed with TeX lexical rules into skeletons; TLC runs the acceptor and compares each skeleton with that of the same tree rendered with all text-bearing attributes replaced by placeholders. Known call sites are identified differentially (neutralising only image sources / only code languages).',
   note='Trusted: the TeX lexer and placeholder substitution in harness/c17.py; inputs are sampled; inputs containing $ are judged by the acceptor only.'),
 'C18': dict(level='exploration', ref='3/C18', technique='TLA+ law (Laws!ConservativeLaw) judged by TLC on recorded outputs (trace validation)',
   text='For sampled inputs meeting each renderer\'s side condition, the contrib renderer\'s output and HtmlRenderer\'s output (same options) are judged by TLC.',
   note='Trusted: side conditions ("[[", "$" textual; code block from the HTML renderer\'s parse as the statement phrases it); TLC.'),
 'C19': dict(level='model_checking', ref='3/C19', technique='TLA+ model of TOC construction (Toc.tla: outline by level vs nesting by indentation) checked exhaustively by TLC; documents written by the specification replayed into the real TocRenderer (spec -> code)',
   text='TLC enumerates every outline-shaped heading sequence within bounds x variants x configurations, checks that nesting by indentation equals nesting by level inside the domain, writes the Markdown source and exports the expected (title, parent) entries; the harness renders each with the real TocRenderer and compares the projected .toc for equality.',
   note='Trusted: the projection of the returned List token to (title, parent) in harness/c19.py; domain decisions listed in the evidence assumptions.'),
}
NOT_YET = 'check not built yet in this session (planned, see DESIGN.md section 3)'

def main():
    checks = []
    for pid in ALL:
        if pid not in CHECKS:
            continue
        c = CHECKS[pid]
        checks.append(dict(
            property_id=pid,
            quick_cmd='./check %s --tier quick' % pid,
            thorough_cmd='./check %s --tier thorough' % pid,
            evidence_file='/verif/evidence/%s.json' % pid,
            replay_cmd_template='./check %s --replay {path}' % pid,
            engine='tlc',
            level_claimed=dict(category=c['level'], text=c['text'], design_ref=c['ref']),
            level_note=c['note'],
            technique=c['technique'],
        ))
    man = dict(
        version=1,
        setup_cmd='./tools/setup.sh',
        hooks=dict(guard='MISTLETOE_VERIF', enable='no in-repo hooks: every observation point is public API (DESIGN.md 1.3)',
                   baseline_off_cmd='cd /repo && /venv/bin/python -m pytest -ra -q -p no:cacheprovider --timeout=900 --continue-on-collection-errors',
                   source_commits=[], add_only=True),
        engines=[dict(name='tlc', path='/verif/spec', serves_properties=sorted(CHECKS),
                      kind_free_text='TLA+ specifications checked with TLC 1.8; Python harness (harness/) replays TLC-generated behaviours into mistletoe and hands recorded executions to TLC trace modules')],
        checks=checks,
        notes='See DESIGN.md. Known findings: known_findings.json. Seeded changes used to validate the checks: seeded/.',
        not_applicable=[dict(property_id=p, reason=NOT_YET) for p in ALL if p not in CHECKS],
    )
    path = os.path.join(VERIF, 'MANIFEST.json')
    json.dump(man, open(path, 'w'), indent=1)
    import jsonschema
    jsonschema.validate(man, json.load(open('/root/.vp/MANIFEST.schema.json')))
    print('MANIFEST.json written and valid:', len(checks), 'checks')

main()
