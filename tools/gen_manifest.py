#!/usr/bin/env python3-vt
"""Regenerates MANIFEST.json from the table below and validates it against the schema."""
import json, os, sys
VERIF = os.path.dirname(os.path.dirname(os.path.abspath(__file__)))
ALL = ['C%02d' % i for i in range(1, 20)]

CHECKS = {
 'C04': dict(level='exploration', ref='3/C04', technique='TLA+ law (Laws!QuoteLaw, Laws!ListLaw) judged by TLC on recorded parses (trace validation)',
   text='Every recorded (base parse, embedded parse) pair is judged by TLC against the embedding laws; inputs are sampled (corpus, mutations, splices, random), so this is exploration with a TLA+ oracle, not exhaustive.',
   note='Trusted: the textual embedding functions and the token projection in harness/; TLC. Texts with whitespace-only lines are outside the list law.'),
 'C05': dict(level='exploration', ref='3/C05', technique='TLA+ law (Laws!ConcatLaw with line shift) judged by TLC on recorded parses (trace validation)',
   text='Every recorded triple (parse A, parse B, parse A+blank+B) is judged by TLC against the concatenation law including line numbers; pairs are sampled.',
   note='Trusted: token projection in harness/proj.py; side conditions are decided from the real parse of A and B alone, as the property phrases them.'),
}
NOT_YET = 'check not built yet in this session (planned, see DESIGN.md section 3)'

def main():
    checks = []
    for pid in ALL:
        if pid not in CHECKS:
            continue
        c = CHECKS[pid]
        checks.append(dict(
            property_id=pid,
            quick_cmd='./check %s --tier quick' % pid,
            thorough_cmd='./check %s --tier thorough' % pid,
            evidence_file='/verif/evidence/%s.json' % pid,
            replay_cmd_template='./check %s --replay {path}' % pid,
            engine='tlc',
            level_claimed=dict(category=c['level'], text=c['text'], design_ref=c['ref']),
            level_note=c['note'],
            technique=c['technique'],
        ))
    man = dict(
        version=1,
        setup_cmd='./tools/setup.sh',
        hooks=dict(guard='MISTLETOE_VERIF', enable='no in-repo hooks: every observation point is public API (DESIGN.md 1.3)',
                   baseline_off_cmd='cd /repo && /venv/bin/python -m pytest -ra -q -p no:cacheprovider --timeout=900 --continue-on-collection-errors',
                   source_commits=[], add_only=True),
        engines=[dict(name='tlc', path='/verif/spec', serves_properties=sorted(CHECKS),
                      kind_free_text='TLA+ specifications checked with TLC 1.8; Python harness (harness/) replays TLC-generated behaviours into mistletoe and hands recorded executions to TLC trace modules')],
        checks=checks,
        notes='See DESIGN.md. Known findings: known_findings.json. Seeded changes used to validate the checks: seeded/.',
        not_applicable=[dict(property_id=p, reason=NOT_YET) for p in ALL if p not in CHECKS],
    )
    path = os.path.join(VERIF, 'MANIFEST.json')
    json.dump(man, open(path, 'w'), indent=1)
    import jsonschema
    jsonschema.validate(man, json.load(open('/root/.vp/MANIFEST.schema.json')))
    print('MANIFEST.json written and valid:', len(checks), 'checks')

main()
