#!/venv/bin/python
"""Derives corpus/expected-0.30.ndjson (example number, normalised expected HTML as ASCII image) from the vendored corpus."""
import json, os, sys
sys.path.insert(0, os.path.dirname(os.path.dirname(os.path.abspath(__file__))))
from harness import inputs, htmlnorm, proj
out = os.path.join(os.path.dirname(inputs.CORPUS_PATH), 'expected-0.30.ndjson')
with open(out, 'w') as f:
    for e in inputs.corpus():
        f.write(json.dumps({'example': e['example'], 'html': proj.asc(htmlnorm.normalize(e['html']))}) + '\n')
print('wrote', out)
