#!/venv/bin/python
"""
Re-run checks against every stored seeded change (or the ones named):  tools/rerun_seeded.py [name ...] [--checks C03,C06]

For each seeded/<name>: a scratch worktree of /repo HEAD is created under /tmp, patch.diff applied, the pinned tests and
the demonstration are re-confirmed, the checks are run with VERIF_REPO pointing at the worktree (quick tier), meta.json is
updated and the worktree removed again.
"""
import json, os, subprocess, sys
VERIF = os.path.dirname(os.path.dirname(os.path.abspath(__file__)))
args = [a for a in sys.argv[1:] if not a.startswith('--')]
extra = [a.split('=', 1)[1].split(',') for a in sys.argv[1:] if a.startswith('--checks=')]
names = args or sorted(os.listdir(os.path.join(VERIF, 'seeded')))
for name in names:
    d = os.path.join(VERIF, 'seeded', name)
    meta = json.load(open(os.path.join(d, 'meta.json')))
    if meta.get('retired'):
        print(name, 'retired:', meta['retired'][:100])
        continue
    wt = '/tmp/wt/%s' % meta['property']      # some demonstrations assert this path
    subprocess.run('git -C /repo worktree remove --force %s 2>/dev/null; git -C /repo worktree add -q --detach %s HEAD' % (wt, wt), shell=True)
    ap = subprocess.run('git apply %s/patch.diff && cp %s/demo.py .' % (d, d), shell=True, cwd=wt)
    if ap.returncode != 0:
        print(name, 'PATCH DOES NOT APPLY to current HEAD')
        subprocess.run('git -C /repo worktree remove --force %s' % wt, shell=True)
        continue
    checks = extra[0] if extra else [meta['property']] if '--own' in sys.argv else sorted(set([meta['property']] + list(meta.get('checks', {}))))
    subprocess.run([os.path.join(VERIF, 'tools', 'try_seeded.py'), name, wt, meta['property']] + checks, cwd=VERIF)
    subprocess.run('git -C /repo worktree remove --force %s' % wt, shell=True)
