"""
C17 - LaTeX output keeps its group/environment structure whatever the text says.

Code -> spec: the real LaTeXRenderer output is lexed with TeX's lexical rules into a structural
skeleton (see spec/LatexOut.tla); TLC runs the acceptor on it and compares it with the skeleton of
the same tree rendered with every text-bearing attribute replaced by a benign placeholder
(non-interference).  Which parts of the output "come from document text" is thus decided without
trusting the renderer.
"""
import json
import multiprocessing as mp
import re

from . import core, inputs

ESCAPE_WORDS = {'textbackslash', 'textasciicircum', 'textasciitilde', 'textbar', 'textless', 'textgreater', 'textunderscore', 'textdollar',
                'textbraceleft', 'textbraceright', 'textquotedbl', 'textquotesingle', 'textasciigrave'}
ESCAPE_SYMBOLS = set('$#{}&_%^~')
SPECIALS = set('{}$&#_^%')
LSTOPT = re.compile(r'\[language=[^\]\[{}%\\]*\]$')


def skeleton(s):
    sk, i, n = [], 0, len(s)
    last_cs = False          # the previous token was a control sequence: a following "{}" is an empty group to drop
    url_depth = None         # brace depth at which the URL argument was opened
    depth = 0
    while i < n:
        c = s[i]
        if c == '\\':
            if i + 1 >= n:
                sk.append('cs:EOF')
                i += 1
                continue
            d = s[i + 1]
            if d.isalpha() and d.isascii():
                j = i + 1
                while j < n and s[j].isalpha() and s[j].isascii():
                    j += 1
                word = s[i + 1:j]
                if url_depth is not None:
                    sk.append('cw:' + word)
                    i = j
                    last_cs = True
                    continue
                if word in ('begin', 'end') and j < n and s[j] == '{':
                    k = s.find('}', j)
                    name = s[j + 1:k] if k > 0 else ''
                    if k > 0 and re.fullmatch(r'[A-Za-z*]+', name):
                        sk.append('%s:%s' % (word, name))
                        i = k + 1
                        if word == 'begin' and name == 'lstlisting':
                            e = s.find('\n', i)
                            e = n if e < 0 else e
                            sk.append('lstopt:ok' if (s[i:e] == '' or LSTOPT.match(s[i:e])) else 'lstopt:bad')
                            close = s.find('\\end{lstlisting}', e)
                            sk.append('lst')
                            i = close if close >= 0 else n
                        last_cs = False
                        continue
                if word == 'verb' and j < n:
                    delim = s[j]
                    k = s.find(delim, j + 1)
                    sk.append('verb')
                    i = (k + 1) if k > 0 else n
                    last_cs = False
                    continue
                if word in ('url', 'href') and j < n and s[j] == '{':
                    sk.append('cw:' + word)
                    sk.append('url{')
                    depth += 1
                    url_depth = depth
                    i = j + 1
                    last_cs = False
                    continue
                if word not in ESCAPE_WORDS:
                    sk.append('cw:' + word)
                i = j
                last_cs = True
                continue
            if url_depth is not None:
                if d not in '%#':
                    sk.append('cs:' + d)
            elif d not in ESCAPE_SYMBOLS:
                sk.append('cs:' + ('nl' if d == '\n' else d))
            i += 2
            last_cs = True
            continue
        if url_depth is not None:
            if c == '{':
                depth += 1
                sk.append('{')
            elif c == '}':
                if depth == url_depth:
                    sk.append('url}')
                    url_depth = None
                else:
                    sk.append('}')
                depth -= 1
            elif c in '%#':
                sk.append(c)
            i += 1
            last_cs = False
            continue
        if c == '{':
            if last_cs and i + 1 < n and s[i + 1] == '}':
                i += 2
                last_cs = False
                continue
            depth += 1
            sk.append('{')
        elif c == '}':
            depth -= 1
            sk.append('}')
        elif c == '$':
            # a math span passed through by design: opaque up to the matching run of dollars
            j = i
            while j < n and s[j] == '$':
                j += 1
            run = s[i:j]
            k = s.find(run, j)
            if k > 0:
                sk.append('math')
                i = k + len(run)
                last_cs = False
                continue
            sk.append('$')
        elif c in SPECIALS:
            sk.append(c)
        i += 1
        last_cs = False
    return sk


def placeholder_tree(doc):
    stack = [doc]
    while stack:
        t = stack.pop()
        name = t.__class__.__name__
        if name == 'RawText':
            t.content = 'x' if t.content else ''
        elif name == 'Math':
            pass
        else:
            for attr in ('target', 'src', 'title', 'language'):
                if attr in vars(t) and isinstance(getattr(t, attr), str):
                    setattr(t, attr, 'x' if getattr(t, attr) else '')
        stack.extend(t.children or [])
        hdr = vars(t).get('header')
        if hdr is not None:
            stack.append(hdr)


def neutralize(doc, attr):
    stack = [doc]
    while stack:
        t = stack.pop()
        if attr in vars(t) and isinstance(getattr(t, attr), str) and getattr(t, attr):
            setattr(t, attr, 'x')
        stack.extend(t.children or [])
        if getattr(t, 'header', None) is not None:       # (a table keeps its header row outside `children`)
            stack.append(t.header)


def record(m, text, neutral=()):
    from mistletoe.latex_renderer import LaTeXRenderer
    with LaTeXRenderer() as r:
        doc = m.Document(text)
        for attr in neutral:
            neutralize(doc, attr)
        out = r.render(doc)
        placeholder_tree(doc)
        out0 = r.render(doc)
    return {'skel': skeleton(out), 'skel0': skeleton(out0), 'compare': 'no' if '$' in text else 'yes'}, out


PAYLOADS = ['a}b', 'a{b', 'a%b', 'a#b', 'a_b', 'a^b', 'a&b', 'a\\b', 'a\\', '\\end{document}', '\\{', '}{', '%}', '\\\\', '~', 'a b', '\\input{x}', '{}', '\\%', 'x\\}',
            'a%20}b', '%7E\\input{f}', 'a%2Fb}{c', '%41$1^2', '{inner}', '{target}', '{0}', '%s', '{tag}', 'a%', '%%', '%7B', 'x#y', 'x%23y#z',
            # dollar runs: well-formed math spans are passed through, anything else is text
            '$x^2$', '$$x_1$$', '$$x^2$', '$a_1$$', 'a $$n$ b $', '$', '$$', '$$$x$', '$x$$$', 'a$b$c$d']
TEMPLATES = ['{p}', '# {p}', '**{p}**', '*{p}*', '~~{p}~~', '[a]({p})', '[{p}](u)', '![a]({p})', '![{p}](x)', '<http://x/{p}>', '```{p}\ncode\n```', '`{p}`',
             '> {p}', '- {p}', '| {p} |\n|---|\n| {p} |', '    {p}', '```\n{p}\n```', '[a][r]\n\n[r]: {p}', '{p}\n===', '1. {p}', '\\{p}', 'a {p}\\\nb',
             '[*c* {x}](/u \'{p}\')', '[**s** 50%]({p})', '[`co` & x][r]\n\n[r]: {p} "t"',
             # constructs with an EMPTY slot next to the payload (a renderer may fill the gap from the other slot)
             '[]({p})', '![]({p})', '[][r]\n\n[r]: {p}', '| []({p}) |\n|---|\n| x |', '[](u "{p}")', '```{p}\n```', '# []({p})']


def _worker(texts):
    m = core.impl()
    out = []
    for t in texts:
        try:
            out.append(record(m, t))
        except Exception as e:
            out.append((None, 'EXCEPTION ' + e.__class__.__name__))
    return out


def run():
    ck = core.Check('C17', 'exploration',
                    'outputs of LaTeXRenderer for corpus examples, seeded mutations/splices, random strings and payload documents (22 construct templates x 20 '
                    'special-character-rich payloads in text, URLs, image sources and info strings); inputs containing "$" are judged by the acceptor only '
                    '(math spans are passed through by design); distinct = distinct inputs; non-trivial = the skeleton has more than the document environment')
    m = core.impl()
    quick = ck.tier == 'quick'
    texts = [t.replace('{p}', p) for t in TEMPLATES for p in PAYLOADS]
    texts += inputs.texts(ck.rng, 4000 if quick else 100000)
    from . import docgen
    texts += docgen.texts(ck, 600 if quick else 20000)
    for i in range(1000 if quick else 30000):
        texts.append(ck.rng.choice(TEMPLATES).replace('{p}', inputs.mutate(ck.rng, ck.rng.choice(PAYLOADS))) + '\n\n' +
                     ck.rng.choice(TEMPLATES).replace('{p}', ck.rng.choice(PAYLOADS)))
    texts = [t for t in dict.fromkeys(texts) if len(t) < 2000]
    chunk = 400
    jobs = [texts[a:a + chunk] for a in range(0, len(texts), chunk)]
    ctx = mp.get_context('fork')
    with ctx.Pool(core.NCPU) as pool:
        results = [x for part in pool.map(_worker, jobs) for x in part]
    recs, meta = [], []
    for t, (rec, out) in zip(texts, results):
        if rec is None:
            continue       # totality (including the documented \verb refusal) is C01's business
        recs.append(rec)
        meta.append((t, out))
    verdicts, st = core.judge('LatexOut', 'Trace.cfg', recs, ck.work, shard=2500)
    ck.add_tlc(st)
    ck.traces = len(recs)
    pending = []
    for (t, out), r, v in zip(meta, recs, verdicts):
        ck.count(t if len(r['skel']) > 3 else None)
        if len(ck.samples) < 5 and '{' in t:
            ck.sample({'input': t, 'output': out, 'skeleton': r['skel'], 'verdict': v})
        if v != 'ok':
            pending.append((t, out, v))
    # identify the call site of a violation differentially: does it vanish when only the image sources / only the
    # code-block language strings of the parsed tree are neutralised before rendering?
    var_recs, var_meta = [], []
    for (t, out, v) in pending:
        for attrs, cls in ((('src',), 'image-source-written-raw'), (('language',), 'code-language-written-raw'), (('src', 'language'), 'image-source-and-code-language-written-raw')):
            try:
                rec, _ = record(m, t, attrs)
            except Exception:
                continue
            var_recs.append(rec)
            var_meta.append((t, cls))
    vv, st2 = core.judge('LatexOut', 'Trace.cfg', var_recs, ck.work, shard=2500)
    ck.add_tlc(st2)
    cls_of = {}
    for (t, cls), v2 in zip(var_meta, vv):
        if v2 == 'ok':
            cls_of.setdefault(t, cls)
    for (t, out, v) in pending:
        classes = [cls_of[t]] if t in cls_of else []
        ck.violation('%s: input=%r output=%r' % (v, t, out[:400]), {'input': t, 'output': out, 'clause': v, 'classes': classes})
    bad = [{'skel': skeleton('\\begin{document}\n\\section{Foo\\}\n\\end{document}\n'), 'skel0': [], 'compare': 'no'},
           {'skel': skeleton('\\begin{document}\na % b\n\\end{document}\n'), 'skel0': [], 'compare': 'no'},
           {'skel': skeleton('\\begin{document}\n\\begin{itemize}\n\\end{enumerate}\n\\end{document}\n'), 'skel0': [], 'compare': 'no'},
           {'skel': skeleton('\\begin{document}\na\\b\n\\end{document}\n'), 'skel0': skeleton('\\begin{document}\nx\n\\end{document}\n'), 'compare': 'yes'}]
    bv, _ = core.judge('LatexOut', 'Trace.cfg', bad, ck.work)
    if any(v == 'ok' for v in bv):
        raise core.MachineryError('binding self-test: a broken LaTeX skeleton was accepted: %s' % bv)
    ck.extra['binding_selftest'] = 'broken skeletons rejected: ' + ', '.join(bv)
    ck.exhaustive = False
    ck.assumptions = ['control sequences are lexed (they consume the character they escape); control words outside the list of escape images and control symbols outside the escapes are part of the skeleton',
                      'inside the URL argument of \\url / \\href only { } % # and the backslash count (hyperref reads it verbatim-like)',
                      '"~" is not in the property\'s list of special characters']
    return ck.finish()


def replay(path):
    rep = json.load(open(path))['replay']
    m = core.impl()
    rec, out = record(m, rep['input'])
    print(repr(out))
    print(rec['skel'])
    print(rec['skel0'])
    return 1
