"""
Driver for spec/DocGen.tla: runs TLC (exhaustive configurations sharded by the kind of the first
block over parallel single-worker processes; simulation mode with several seeds) and returns the
exported documents: {src, html, lines, defs, tags, nblocks}.
"""
import json
import re
from concurrent.futures import ThreadPoolExecutor

from . import core, htmlnorm, proj

KINDS = ['para', 'atx', 'setext', 'hr', 'fence', 'code', 'def', 'quote', 'list', 'table', 'html']


def exhaustive(ck, cfg, timeout=3000):
    def one(sh):
        return core.tlc('DocGen', cfg, workers=1, env={'SHARD': sh}, timeout=timeout, heap='4g')
    with ThreadPoolExecutor(max_workers=core.NCPU) as ex:
        results = list(ex.map(one, KINDS))
    docs = []
    for r in results:
        ck.add_tlc(r)
        docs.extend(r.printed_json())
    return docs


def exhaustive_shard(ck, cfg, shard, timeout=3000):
    """One shard of an exhaustive configuration (for the thorough tiers that judge shard by shard to bound memory)."""
    r = core.tlc('DocGen', cfg, workers=1, env={'SHARD': shard}, timeout=timeout, heap='6g')
    ck.add_tlc(r)
    return dedupe(concretise(r.printed_json()))


def simulate(ck, cfg, num, depth=80, procs=None, timeout=3000):
    procs = procs or min(core.NCPU, max(1, num // 200))
    per = max(1, num // procs)

    def one(i):
        return core.tlc('DocGen', cfg, workers=1, env={'SHARD': '-'}, timeout=timeout, heap='2g',
                        extra=['-simulate', 'num=%d' % per, '-depth', str(depth), '-seed', str(ck.seed * 1000 + i + 1)])
    with ThreadPoolExecutor(max_workers=core.NCPU) as ex:
        results = list(ex.map(one, range(procs)))
    docs = []
    for r in results:
        ck.add_tlc(r)
        docs.extend(r.printed_json())
    return docs


SZ = '\u1e9e'


def concretise(docs):
    """Put the characters in that the specification writes as ASCII placeholders."""
    for d in docs:
        if '{SZ}' in d['src'] or '{TAB}' in d['src']:
            d['src'] = d['src'].replace('{SZ}', SZ).replace('{TAB}', '\t')
            d['html'] = d['html'].replace('{SZ}', SZ).replace('{TAB}', '\t')
    return docs


def dedupe(docs):
    seen, out = set(), []
    for d in docs:
        key = (d['src'], d['html'], json.dumps(d['lines']))
        if key in seen:
            continue
        seen.add(key)
        out.append(d)
    return out


def documents(ck, which='blocks'):
    """The documents of this tier for the given family of configurations."""
    quick = ck.tier == 'quick'
    if which == 'blocks':
        docs = exhaustive(ck, 'DocGenQ.cfg')
        if not quick:
            docs += exhaustive(ck, 'DocGenT1.cfg') + exhaustive(ck, 'DocGenT2.cfg')
        n_exh = len(docs)
        docs += simulate(ck, 'DocGenSim.cfg', 4000 if quick else 60000)
        if not quick:
            docs += simulate(ck, 'DocGenSimBig.cfg', 20000, depth=140)
    elif which == 'refs':
        docs = exhaustive(ck, 'DocGenRefsQ.cfg' if quick else 'DocGenRefsT.cfg')
        n_exh = len(docs)
        docs += simulate(ck, 'DocGenRefsSim.cfg', 3000 if quick else 60000)
    else:
        raise ValueError(which)
    if n_exh < 5000:
        raise core.MachineryError('DocGen.tla exported only %d documents exhaustively' % n_exh)
    ck.extra['docgen_exhaustive_documents'] = n_exh
    docs = dedupe(concretise(docs))
    ck.extra['docgen_distinct_documents'] = len(docs)
    return docs


def render_html(m, src):
    with m.HtmlRenderer() as r:
        return r.render(m.Document(src))


def block_lines(m, src):
    """(class name, line_number) of every block token in document order."""
    from mistletoe import block_token
    with m.HtmlRenderer():
        doc = m.Document(src)
    out = []

    def walk(t):
        out.append({'t': t.__class__.__name__, 'ln': t.line_number})
        for c in (t.children or []):
            if isinstance(c, block_token.BlockToken):
                walk(c)
    walk(doc)
    return out, doc


FINDING_TAGS = {'setext-in-quote', 'lazy-after-indented-quote-content', 'table-on-marker-line', 'item-begins-with-blank-line',
                'lazy-after-nonpara', 'quote-begins-with-blank-line', 'tab-stop-relative-to-container'}


def roundtrip_records(ck, m, record):
    """C09 hook: round-trip records for generated documents (non-canonical spellings)."""
    docs = simulate(ck, 'DocGenSim.cfg', 1500 if ck.tier == 'quick' else 30000)
    docs += exhaustive(ck, 'DocGenQ.cfg')
    # the same simulation under the state constraint NormalForm (no spelling the renderer would not write itself): as the
    # spelling ranges grow, an unconstrained document without any non-canonical spelling becomes rare
    docs += simulate(ck, 'DocGenNFSim.cfg', 1500 if ck.tier == 'quick' else 30000)
    docs = dedupe(concretise(docs))
    out = []
    charref = re.compile(r'&(#[0-9]+|#[xX][0-9a-fA-F]+|[A-Za-z][A-Za-z0-9]*);')
    for i, d in enumerate(docs):
        if charref.search(d['src']):
            continue          # the property statement sets character references aside for the generated domain
        # the specification tags every spelling the renderer does not write itself with "nc"; an untagged document is in the
        # renderer's normal form and must come back byte for byte (judged without normalize_whitespace; documents of a
        # recorded finding do not mean what they say and are left out of that clause)
        normal = not (set(d['tags']) & ({'nc'} | FINDING_TAGS))
        for nw in (False, True):
            try:
                r = record(m, d['src'], nw, normal=normal and not nw)
            except Exception as ex:
                r = {'law': 'roundtrip', 'x': '', 'y': 'EXCEPTION', 'z': ex.__class__.__name__, 'htmlX': '', 'htmlY': '', 'defsX': [], 'defsY': [], 'normal': 'no'}
            out.append((r, {'source': 'docgen', 'doc': i, 'normalize_whitespace': nw, 'input': d['src'], 'classes': sorted(d['tags'])}))
    return out


import re
_CHARREF = re.compile(r'&(#[0-9]+|#[xX][0-9a-fA-F]+|[A-Za-z][A-Za-z0-9]*);')
_TITLE_AFTER_DEF = re.compile(r'^[> \d.)*+-]*\[[^\]\n]+\]: [^\n]*\n[> ]*[("\']', re.M)      # (the definition may stand on a marker line)


def reflow_documents(ck, m):
    """C10 hook: DocGen documents (all block kinds, containers, definitions, tables, HTML blocks).  They carry no word table,
    so only the meaning, idempotence and protected-block clauses of the reflow law are judged on them (W = -1 marks that)."""
    docs = concretise(simulate(ck, 'DocGenSim.cfg', 4000 if ck.tier == 'quick' else 60000))
    out = []
    for d in dedupe(docs):
        if set(d['tags']) & {'setext-in-quote', 'lazy-after-indented-quote-content', 'table-on-marker-line', 'item-begins-with-blank-line',
                            'tab-stop-relative-to-container', 'lazy-after-nonpara'}:
            continue          # documents of a recorded finding (parser or Markdown renderer) do not mean what they say
        if _CHARREF.search(d['src']) or 'title-like-word-after-definition' in d['tags'] or 'word-that-starts-a-block' in d['tags']:
            continue          # a first word that reads as a link title once it stands alone on the line after a definition: the
                              # property sets aside words that mean something at the start of a line (class decided by the specification)
        if _TITLE_AFTER_DEF.search(d['src']):
            ck.extra['title_like_untagged'] = ck.extra.get('title_like_untagged', 0) + 1      # cross-check of the tag against the old syntactic test
        out.append({'src': d['src'], 'words': [], 'hard': [], 'W': -1})
    return out


_texts_cache = {}


def texts(ck, n):
    """Source texts of n simulated DocGen documents (full spelling ranges), for the checks that work on arbitrary inputs."""
    if n not in _texts_cache:
        docs = concretise(simulate(ck, 'DocGenSim.cfg', n))
        _texts_cache[n] = [d['src'] for d in dedupe(docs)]
    return list(_texts_cache[n])
