"""
C07 - link reference definitions: position-independent, first wins, case-folded.

Spec -> code: spec/DocGen.tla types documents made of paragraphs/headings that use references
(shortcut, full, collapsed; links and images) and of definitions placed at every block boundary of
every container, with duplicate, case-variant, whitespace-variant and near-duplicate labels, three
title styles and angle-bracket destinations.  The specification resolves each reference to the first
definition with the same label base and writes the expected HTML; TLC checks FirstWins on the model.
The harness compares the real HTML and the real Document.footnotes table with the specification's.
"""
import json
from concurrent.futures import ThreadPoolExecutor
import multiprocessing as mp

from . import core, docgen, htmlnorm


def _worker(docs):
    m = core.impl()
    out = []
    for d in docs:
        try:
            with m.HtmlRenderer() as r:
                doc = m.Document(d['src'])
                html = htmlnorm.normalize(r.render(doc))
            table = sorted([k, v[0], v[1]] for k, v in doc.footnotes.items())
        except Exception as e:
            html, table = 'EXCEPTION ' + e.__class__.__name__, []
        out.append((html, table))
    return out


def run():
    ck = core.Check('C07', 'model_checking',
                    'documents typed by spec/DocGen.tla restricted to paragraphs, headings, definitions and containers: exhaustive over <= 3 blocks at nesting <= 1 '
                    '(every placement of 1-2 definitions relative to 1-2 uses, inside and outside quotes and list items), plus simulated documents of up to 9 blocks '
                    'at nesting <= 3 with the full label / destination / title ranges; plus every line sequence of <= 3 (4) lines over three alphabets of definition lines '
                    '(destination or title on the next line, unclosed titles, underlines and block starts after a definition) read by spec/BlockParse.tla; distinct = distinct source texts; non-trivial = has a definition and a reference')
    from . import blockparse
    st = {'i': 0}

    def judge_docs(docs):
        chunk = 400
        jobs = [docs[a:a + chunk] for a in range(0, len(docs), chunk)]
        ctx = mp.get_context('fork')
        with ctx.Pool(core.NCPU) as pool:
            got = [x for part in pool.map(_worker, jobs) for x in part]
        for d, (html, table) in zip(docs, got):
            st['i'] += 1
            want_html = htmlnorm.normalize(d['html'])
            want_table = sorted([x['base'], x['href'] if not x['href'].startswith('a%20') else 'a b', x['title']] for x in d['defs'] if x['first'])
            nontrivial = bool(d['defs']) and ('[' in d['html'] or '<a ' in d['html'] or '<img' in d['html'])
            ck.count(d['src'] if nontrivial else None)
            ck.traces += 1
            if st['i'] % 3001 == 1:
                ck.sample({'source': d['src'], 'expected_html': d['html'], 'expected_definitions': want_table})
            rep = {'input': d['src'], 'classes': sorted(d['tags'])}
            if html != want_html:
                ck.violation('LinkRefs.html: source=%r expected=%r observed=%r' % (d['src'], want_html, html),
                             dict(rep, expected=want_html, observed=html, clause='LinkRefs.html'))
            elif table != want_table:
                ck.violation('LinkRefs.table: source=%r expected=%s observed=%s' % (d['src'], want_table, table),
                             dict(rep, expected=want_table, observed=table, clause='LinkRefs.table'))

    if ck.tier == 'quick':
        judge_docs(docgen.documents(ck, 'refs'))
    else:
        # the exhaustive configuration exports about two million documents: judged shard by shard to bound memory
        n_exh = 0
        for shard in ('para', 'def', 'quote', 'list'):
            docs = docgen.exhaustive_shard(ck, 'DocGenRefsT.cfg', shard)
            n_exh += len(docs)
            judge_docs(docs)
            del docs
        if n_exh < 5000:
            raise core.MachineryError('DocGen.tla exported only %d documents exhaustively' % n_exh)
        ck.extra['docgen_exhaustive_documents'] = n_exh
        judge_docs(docgen.dedupe(docgen.concretise(docgen.simulate(ck, 'DocGenRefsSim.cfg', 60000))))
    # every short line sequence over the alphabets that hold definitions, read by spec/BlockParse.tla (HTML and definition table)
    judge_docs(blockparse.documents(ck, 3 if ck.tier == 'quick' else 4, laws=False, only=['R1', 'R2', 'R3', 'R5']))
    reflinks_layer(ck)
    ck.extra['binding_selftest'] = 'expected HTML and definition table are compared for equality; see C03 for the corrupted-expectation test'
    ck.exhaustive = True
    ck.assumptions = ['labels are compared through the specification\'s base table (case and inner-whitespace variants of one base; near-duplicates are different bases); Unicode case folding is not covered by the model',
                      'a definition typed directly in a list item is never next to a blank line (whether that makes the list loose is not settled by the specification text)']
    return ck.finish()


def reflinks_layer(ck):
    """spec/RefLinks.tla: the three reference forms for links and images as the procedure "look for link or image" resolves them
    (one defined label, every other label undefined; openers, deactivation of outer links, labels that hold brackets, what
    follows the closing bracket): every text up to 7 (quick) / 8 (thorough) characters over {a, [, ], !, space}, sharded by the
    first character; the real parser renders text + blank line + the definition."""
    t = 'Q' if ck.tier == 'quick' else 'T'
    # second alphabet {a, [, ], (, )}: the plainest inline destination (balanced parentheses) is tried first, then the reference forms
    jobs = [('RefLinks%s.cfg' % t, sh) for sh in ['a', '[', ']', '!']] + [('RefLinksP%s.cfg' % t, sh) for sh in ['a', '[', ']', '(', ')']] + \
           [('RefLinksN%s.cfg' % t, sh) for sh in ['a', '[', ']', '(', ')']] + \
           [('RefLinksE%s.cfg' % t, sh) for sh in ['a', '[', ']', '!', '\\']] + \
           [('RefLinksC%s.cfg' % t, sh) for sh in ['a', '[', ']', '!', '`']] + \
           [('RefLinksL%s.cfg' % t, sh) for sh in ['a', 'A', '[', ']']]           # {a, [, ], (, ), LF}: whitespace around the destination, a title in parentheses, line ends in link text and labels; {a, A, [, ], space}: labels are compared case-folded

    def one(job):
        return core.tlc('RefLinks', job[0], workers=1, env={'SHARD': job[1]}, timeout=3000, heap='2g')
    with ThreadPoolExecutor(max_workers=core.NCPU) as ex:
        results = list(ex.map(one, jobs))
    m = core.impl()
    n = links = skipped = 0
    for res in results:
        ck.add_tlc(res)
        for rec in res.printed_json():
            if rec['tags']:
                skipped += 1        # the specification text and its procedure disagree (a blank label behind a shortcut): not judged
                continue
            src = rec['input'] + '\n\n[a]: /u\n'
            try:
                with m.HtmlRenderer() as r:
                    got = r.render(m.Document(src))
            except Exception as e:
                got = 'EXCEPTION ' + e.__class__.__name__
            want = '<p>' + rec['html'] + '</p>\n'
            n += 1
            links += '<a ' in rec['html'] or '<img ' in rec['html']
            ck.traces += 1
            ck.count(('reflinks', rec['input']) if ('<a ' in rec['html'] or '<img ' in rec['html']) else None)
            if n % 9973 == 1:
                ck.sample({'source': src, 'expected_html': want})
            if got != want:
                ck.violation('LinkRefs.html: source=%r expected=%r observed=%r' % (src, want, got),
                             {'input': src, 'expected': htmlnorm.normalize(want), 'observed': htmlnorm.normalize(got), 'clause': 'LinkRefs.html', 'classes': []})
    if n < 520000 or links < 30000:
        raise core.MachineryError('RefLinks.tla exported only %d texts (%d with a link or image)' % (n, links))
    ck.extra['reflinks_texts'] = n
    ck.extra['reflinks_texts_with_reference'] = links
    ck.extra['reflinks_unsettled_not_judged'] = skipped


def replay(path):
    rep = json.load(open(path))['replay']
    m = core.impl()
    with m.HtmlRenderer() as r:
        doc = m.Document(rep['input'])
        html = htmlnorm.normalize(r.render(doc))
    print('expected', rep['expected'])
    print('observed', html if rep['clause'] == 'LinkRefs.html' else sorted([k, v[0], v[1]] for k, v in doc.footnotes.items()))
    return 1
