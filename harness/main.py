"""
./check <id> [--tier quick|thorough] [--replay path]

exit 0: the property held on everything explored (known findings are printed as KNOWN-FINDING lines)
exit 1: at least one VIOLATION line was printed
exit 2: the machinery itself failed (TLC crashed, unreadable output, vacuous run); not a verdict
"""
import argparse
import importlib
import os
import sys
import traceback


def main(argv):
    ap = argparse.ArgumentParser()
    ap.add_argument('prop')
    ap.add_argument('--tier', choices=['quick', 'thorough'])
    ap.add_argument('--replay')
    ns = ap.parse_args(argv)
    if ns.tier:
        os.environ['VERIF_TIER'] = ns.tier
    os.environ.setdefault('PYTHONHASHSEED', '0')
    from . import core
    try:
        mod = importlib.import_module('harness.%s' % ns.prop.lower())
        if ns.replay:
            return mod.replay(ns.replay)
        return mod.run()
    except core.MachineryError as e:
        print('MACHINERY-FAILURE property=%s: %s' % (ns.prop, e))
        return 2
    except Exception:
        traceback.print_exc()
        print('MACHINERY-FAILURE property=%s: unexpected exception in the harness' % ns.prop)
        return 2


if __name__ == '__main__':
    sys.exit(main(sys.argv[1:]))
