"""
C13 - every block token reports the source line on which it starts.

Spec -> code: spec/DocGen.tla records, for every block it types, the index of the source line that
holds the block's first character; the harness parses the source with the real parser and compares
(class, line_number) of every block token in document order.
"""
import json
import multiprocessing as mp

from . import core, docgen


def _worker(docs):
    m = core.impl()
    out = []
    for d in docs:
        try:
            got, _ = docgen.block_lines(m, d['src'])
        except Exception as e:
            got = [{'t': 'EXCEPTION ' + e.__class__.__name__, 'ln': 0}]
        out.append(got)
    return out


def run():
    ck = core.Check('C13', 'model_checking',
                    'documents typed by spec/DocGen.tla (same families as C03: exhaustive small bounds + simulation), including lazy continuation lines, '
                    'definitions before and between blocks, nested containers; block kinds: paragraph, both headings, code blocks, quote, list, list item, '
                    'thematic break; distinct = distinct source texts; non-trivial = at least two blocks')
    docs = docgen.documents(ck, 'blocks')
    chunk = 400
    jobs = [docs[a:a + chunk] for a in range(0, len(docs), chunk)]
    ctx = mp.get_context('fork')
    with ctx.Pool(core.NCPU) as pool:
        got = [x for part in pool.map(_worker, jobs) for x in part]
    for i, (d, g) in enumerate(zip(docs, got)):
        ck.count(d['src'] if d['nblocks'] >= 2 else None)
        ck.traces += 1
        if i % 4001 == 0:
            ck.sample({'source': d['src'], 'expected_lines': d['lines']})
        if g != d['lines']:
            same_shape = [x['t'] for x in g] == [x['t'] for x in d['lines']]
            clause = 'DocGen.line-numbers' if same_shape else 'DocGen.blocks-differ'
            ck.violation('%s: source=%r expected=%s observed=%s tags=%s' % (clause, d['src'], d['lines'], g, d['tags']),
                         {'input': d['src'], 'expected': d['lines'], 'observed': g, 'classes': sorted(d['tags']), 'clause': clause})
    m = core.impl()
    d = docs[len(docs) // 2]
    g, _ = docgen.block_lines(m, d['src'])
    if g == [dict(x, ln=x['ln'] + 1) for x in d['lines']]:
        raise core.MachineryError('binding self-test failed')
    ck.extra['binding_selftest'] = 'a shifted expectation differs from the observed line numbers'
    ck.exhaustive = True
    ck.assumptions = ['a block quote / list / list item starts on the line of its marker; a setext heading on its first text line']
    return ck.finish()


def replay(path):
    rep = json.load(open(path))['replay']
    m = core.impl()
    g, _ = docgen.block_lines(m, rep['input'])
    print('expected', rep['expected'])
    print('observed', g)
    return 0 if g == rep['expected'] else 1
