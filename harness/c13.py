"""
C13 - every block token reports the source line on which it starts.

Spec -> code: spec/DocGen.tla records, for every block it types, the index of the source line that
holds the block's first character; the harness parses the source with the real parser and compares
(class, line_number) of every block token in document order.
"""
import json
import multiprocessing as mp
import re

from . import core, docgen


def _worker(docs):
    m = core.impl()
    out = []
    for d in docs:
        try:
            got, _ = docgen.block_lines(m, d['src'])
        except Exception as e:
            got = [{'t': 'EXCEPTION ' + e.__class__.__name__, 'ln': 0}]
        out.append(got)
    return out


WORD = re.compile(r'[A-Za-z0-9]+')


def _nows(s):
    return s.replace(' ', '').replace('\t', '').replace('\n', '')


def cursor_and_anchor_records(m, text):
    """Code -> spec on an arbitrary input: the dispatch cursor of every (nested) block loop, observed through a pass-through
    block token at position 0, and a characteristic anchor of every block token's first line."""
    from mistletoe import block_token
    src = text.splitlines(keepends=True)
    src = [l if l.endswith('\n') else l + '\n' for l in src]
    obs, ids, keep = [], {}, []       # `keep` holds the wrappers so that id() values are not reused

    class CursorProbe(block_token.BlockToken):
        @staticmethod
        def start(line):
            return True

        @classmethod
        def read(cls, lines):
            if id(lines) not in ids:
                keep.append(lines)
            w = ids.setdefault(id(lines), len(ids) + 1)
            p = lines.line_number() - lines.start_line + 2
            peek = lines.peek() or ''
            g = lines.start_line + p - 1
            ok = 1 <= g <= len(src) and _nows(src[g - 1]).endswith(_nows(peek))
            obs.append({'w': w, 'start': lines.start_line, 'pos': p, 'n': len(lines.lines), 'tail': 'yes' if ok else 'no'})
            return None
    with m.HtmlRenderer():
        block_token.add_token(CursorProbe, 0)
        m.Document(text)
    with m.HtmlRenderer():
        doc = m.Document(text)
    toks = []

    def first_raw(t):
        ch = t.children
        if ch is None:
            return t if t.__class__.__name__ == 'RawText' else None
        for c in ch:
            return first_raw(c) if c.__class__.__name__ == 'RawText' or c.children is not None else None
        return None

    def anchor(t):
        n = t.__class__.__name__
        if n in ('Paragraph', 'SetextHeading', 'TableCell', 'BlockCode'):
            r = first_raw(t)
            if r is None or not list(t.children) or (n != 'BlockCode' and t.children[0] is not r):
                return None
            mm = WORD.match(r.content.lstrip())
            return mm.group(0) if mm else None
        if n == 'Heading':
            return '#'
        if n == 'ThematicBreak':
            return t.line.strip()[:1]
        if n == 'CodeFence':
            return t.delimiter
        if n == 'Quote':
            return '>'
        if n == 'ListItem':
            return t.leader
        if n == 'List':
            return t.children[0].leader if t.children else None
        if n in ('Table', 'TableRow'):
            return '|'
        if n == 'HtmlBlock':
            return '<'
        return None

    def walk(t):
        if isinstance(t, block_token.BlockToken) and t.__class__.__name__ != 'Document':
            a = anchor(t)
            if a:
                ln = getattr(t, 'line_number', None)
                found = isinstance(ln, int) and 1 <= ln <= len(src) and a in src[ln - 1]
                toks.append({'t': t.__class__.__name__, 'ln': ln if isinstance(ln, int) else -1, 'found': 'yes' if found else 'no'})
        for c in (t.children or []):
            if isinstance(c, block_token.BlockToken):
                walk(c)
        hdr = vars(t).get('header')
        if hdr is not None:
            walk(hdr)
    walk(doc)
    return {'law': 'cursor', 'obs': obs}, {'law': 'anchors', 'tokens': toks}


def arbitrary_inputs_layer(ck, m):
    from . import inputs
    design = core.tlc('BlockCursor', 'BlockCursor.cfg', workers=1)
    ck.add_tlc(design)
    bad = core.tlc('BlockCursor', 'BlockCursorBad.cfg', workers=1, check=False)
    if not (bad.error and 'Terminates is violated' in bad.error):
        raise core.MachineryError('BlockCursor: the misbehaving reader does not violate Terminates (vacuous design-level model)')
    recs, meta = [], []
    for t in inputs.texts(ck.rng, 2500 if ck.tier == 'quick' else 60000):
        if len(t) > 1500 or not inputs.only_lf(t):
            continue
        try:
            a, b = cursor_and_anchor_records(m, t)
        except Exception:
            continue         # totality is C01's business
        finally:
            from mistletoe import block_token, span_token
            block_token.reset_tokens()
            span_token.reset_tokens()
        recs += [a, b]
        meta += [t, t]
    verdicts, st = core.judge('BlockCursorTrace', 'BlockCursorTrace.cfg', recs, ck.work, shard=1500)
    ck.add_tlc(st)
    for t, r, v in zip(meta, recs, verdicts):
        ck.count(('arbitrary', r['law'], t) if t.strip() else None)
        ck.traces += 1
        if v != 'ok':
            classes = ['unicode-whitespace-only-line'] if inputs.has_unicode_blank_line(t) else []
            ck.violation('%s: input=%r' % (v, t), {'input': t, 'law': r['law'], 'clause': v, 'classes': classes})
    ck.extra['arbitrary_inputs'] = len(recs) // 2
    badrec = [{'law': 'cursor', 'obs': [{'w': 1, 'start': 1, 'pos': 1, 'n': 2, 'tail': 'yes'}, {'w': 1, 'start': 1, 'pos': 1, 'n': 2, 'tail': 'yes'}]},
              {'law': 'cursor', 'obs': [{'w': 1, 'start': 1, 'pos': 1, 'n': 2, 'tail': 'no'}]},
              {'law': 'anchors', 'tokens': [{'t': 'Paragraph', 'ln': 3, 'found': 'no'}]}]
    bv, _ = core.judge('BlockCursorTrace', 'BlockCursorTrace.cfg', badrec, ck.work)
    if any(v == 'ok' for v in bv):
        raise core.MachineryError('binding self-test: a bad cursor / anchor record was accepted')


def run():
    ck = core.Check('C13', 'model_checking',
                    'documents typed by spec/DocGen.tla (same families as C03: exhaustive small bounds + simulation), including lazy continuation lines, '
                    'definitions before and between blocks, nested containers; block kinds: paragraph, both headings, code blocks, quote, list, list item, '
                    'thematic break; distinct = distinct source texts; non-trivial = at least two blocks')
    docs = docgen.documents(ck, 'blocks')
    from . import blockparse
    n_gen = len(docs)

    def judge_part(part):
        chunk = 400
        jobs = [part[a:a + chunk] for a in range(0, len(part), chunk)]
        ctx = mp.get_context('fork')
        with ctx.Pool(core.NCPU) as pool:
            got = [x for piece in pool.map(_worker, jobs) for x in piece]
        for i, (d, g) in enumerate(zip(part, got)):
            ck.count(d['src'] if d['nblocks'] >= 2 else None)
            ck.traces += 1
            if i % 4001 == 0:
                ck.sample({'source': d['src'], 'expected_lines': d['lines']})
            if g != d['lines']:
                same_shape = [x['t'] for x in g] == [x['t'] for x in d['lines']]
                clause = 'DocGen.line-numbers' if same_shape else 'DocGen.blocks-differ'
                ck.violation('%s: source=%r expected=%s observed=%s tags=%s' % (clause, d['src'], d['lines'], g, d['tags']),
                             {'input': d['src'], 'expected': d['lines'], 'observed': g, 'classes': sorted(d['tags']), 'clause': clause})
    judge_part(docs)
    # every short line sequence, read by spec/BlockParse.tla (part by part: memory)
    for part in blockparse.document_parts(ck, 3 if ck.tier == 'quick' else 4, laws=False, deep_more=True):
        judge_part(part)
    m = core.impl()
    arbitrary_inputs_layer(ck, m)
    d = docs[len(docs) // 2]
    g, _ = docgen.block_lines(m, d['src'])
    if g == [dict(x, ln=x['ln'] + 1) for x in d['lines']]:
        raise core.MachineryError('binding self-test failed')
    ck.extra['binding_selftest'] = 'a shifted expectation differs from the observed line numbers'
    ck.exhaustive = True
    ck.assumptions = ['a block quote / list / list item starts on the line of its marker; a setext heading on its first text line']
    return ck.finish()


def replay(path):
    rep = json.load(open(path))['replay']
    m = core.impl()
    g, _ = docgen.block_lines(m, rep['input'])
    print('expected', rep['expected'])
    print('observed', g)
    return 0 if g == rep['expected'] else 1
