"""
Projections of implementation state into small JSON values that TLC can read.

Text travels ASCII-only (asc): an injective escaping, so equality of projected values is equality
of the originals.  Attribute values travel as strings, so that TLC never compares values of
different types.  Lists are always lists (possibly empty), never null.
"""
from . import core


def asc(s):
    """Injective ASCII image of a string."""
    out = []
    for ch in s:
        o = ord(ch)
        if ch == '\\':
            out.append('\\\\')
        elif 32 <= o < 127:
            out.append(ch)
        elif ch == '\n':
            out.append('\\n')
        else:
            out.append('\\u{%x}' % o)
    return ''.join(out)


def _attrs(tok):
    names = []
    if 'content' in vars(tok):
        names.append('content')
    for n in getattr(tok, 'repr_attributes', ()):
        if n != 'line_number' and n not in names:
            names.append(n)
    return ';'.join('%s=%s' % (n, asc(repr(getattr(tok, n, None)))) for n in names)


def node(tok, lines=True):
    """Nested projection: {t: class name, a: attributes, l: line (0 = none / set aside), c: children}."""
    ch = tok.children
    kids = [node(c, lines) for c in ch] if ch is not None else []
    n = {'t': tok.__class__.__name__, 'a': _attrs(tok), 'l': 0, 'c': kids}
    if lines:
        ln = getattr(tok, 'line_number', None)
        n['l'] = ln if isinstance(ln, int) else 0
    hdr = vars(tok).get('header')
    if hdr is not None:
        n['c'] = [dict(node(hdr, lines), t='TableHeader')] + n['c']
    return n


def blocks(doc, lines=True):
    return [node(c, lines) for c in doc.children]


def defs(doc):
    return [[asc(k), asc(v[0]), asc(v[1])] for k, v in sorted(doc.footnotes.items())]


def count_nodes(n):
    if isinstance(n, list):
        return sum(count_nodes(x) for x in n)
    return 1 + sum(count_nodes(x) for x in n['c'])


def types_in(n, acc=None):
    acc = set() if acc is None else acc
    if isinstance(n, list):
        for x in n:
            types_in(x, acc)
    else:
        acc.add(n['t'])
        for x in n['c']:
            types_in(x, acc)
    return acc
