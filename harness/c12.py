"""
C12 - the token tree is well-formed and its generic views are faithful.

Spec -> code: every case explored by spec/Traverse.tla (all trees of <= MaxNodes nodes x class
filter x depth limit x include_source) is rebuilt as a real token tree and walked by the real
utils.traverse; the yields must be the ones the specification computed.
Code -> spec: dumps of real parses (Html, Markdown, LaTeX, XWiki token sets), real traversal yield
sequences and real AstRenderer output are judged by TLC against spec/TreeShape.tla
(WellFormed, TraverseLaw, MirrorLaw).
"""
import json

from . import core, inputs, proj


def token_sets(m):
    from mistletoe.markdown_renderer import MarkdownRenderer
    from mistletoe.latex_renderer import LaTeXRenderer
    from mistletoe.contrib.xwiki20_renderer import XWiki20Renderer
    return [m.HtmlRenderer, MarkdownRenderer, LaTeXRenderer, XWiki20Renderer]


def dump(m, doc):
    """Flat dump of the object graph reachable through .children (and Table.header)."""
    from mistletoe import block_token
    nodes, ids, toks = [], {}, []

    def visit(tok, role):
        i = len(nodes) + 1
        ids[id(tok)] = i
        toks.append(tok)
        rec = {'cls': tok.__class__.__name__, 'mro': [c.__name__ for c in tok.__class__.__mro__ if c is not object],
               'kind': 'block' if isinstance(tok, block_token.BlockToken) else 'span',
               'parent': tok.parent, 'kids': [], 'leaf': 'yes' if tok.children is None else 'no', 'role': role,
               'level': 0, 'start': 'n/a', 'leader': 'n/a'}
        lv = getattr(tok, 'level', 0)
        if rec['cls'] in ('Heading', 'SetextHeading'):
            rec['level'] = lv if isinstance(lv, int) and 0 <= lv < 1000 else 999
        if rec['cls'] == 'List':
            rec['start'] = repr(tok.start)
            ch = list(tok.children or [])
            if ch:
                ld = getattr(ch[0], 'leader', '')
                rec['leader'] = repr(int(ld[:-1])) if len(ld) > 1 and ld[:-1].isdigit() else 'None'
        nodes.append(rec)
        hdr = vars(tok).get('header')
        if hdr is not None:
            visit(hdr, 'header')
        for c in (tok.children or []):
            if id(c) in ids:            # listed twice: keep the second listing, the spec will reject it
                rec['kids'].append(ids[id(c)])
            else:
                rec['kids'].append(visit(c, 'child'))
        return i

    visit(doc, 'child')
    for rec in nodes:
        p = rec['parent']
        rec['parent'] = 0 if p is None else ids.get(id(p), 99999)
    return nodes, ids, toks


def tree_of(tok, header=False):
    names = [n for n in getattr(tok, 'repr_attributes', ())]
    a = ';'.join('%s=%s' % (n, proj.asc(json.dumps(getattr(tok, n), sort_keys=True, default=repr))) for n in names)
    n = {'t': ('header:' if header else '') + tok.__class__.__name__, 'a': a,
         'k': proj.asc(vars(tok)['content']) if 'content' in vars(tok) else '',
         'leaf': 'yes' if tok.children is None else 'no', 'c': []}
    if 'footnotes' in vars(tok):
        n['k'] += '|footnotes=' + proj.asc(json.dumps(tok.footnotes, sort_keys=True))
    hdr = vars(tok).get('header')
    if hdr is not None:
        n['c'].append(tree_of(hdr, True))
    for c in (tok.children or []):
        n['c'].append(tree_of(c))
    return n


def tree_of_json(j, header=False):
    names = [k for k in j if k not in ('type', 'children', 'header', 'content', 'footnotes')]
    a = ';'.join('%s=%s' % (n, proj.asc(json.dumps(j[n], sort_keys=True))) for n in names)
    n = {'t': ('header:' if header else '') + str(j.get('type')), 'a': a,
         'k': proj.asc(j['content']) if 'content' in j else '', 'leaf': 'no' if 'children' in j else 'yes', 'c': []}
    if 'footnotes' in j:
        n['k'] += '|footnotes=' + proj.asc(json.dumps(j['footnotes'], sort_keys=True))
    if 'header' in j:
        n['c'].append(tree_of_json(j['header'], True))
    for c in j.get('children', []):
        n['c'].append(tree_of_json(c))
    return n


def replay_traverse(ck, m):
    """spec -> code for the traversal machine."""
    from mistletoe.utils import traverse
    from mistletoe import token as token_mod
    cfg = 'TraverseExport.cfg' if ck.tier == 'quick' else 'TraverseExport5.cfg'
    res = core.tlc('Traverse', cfg, workers=1, timeout=1800)
    ck.add_tlc(res)
    cases = res.printed_json()
    if len(cases) < 2000:
        raise core.MachineryError('Traverse.tla exported only %d cases' % len(cases))

    class A(token_mod.Token):
        pass

    class B(token_mod.Token):
        pass
    klasses = {'': None, 'A': A, 'B': B, 'Token': token_mod.Token}
    drift = 0
    for case in cases:
        n = case['n']
        toks = [None] + [{'A': A, 'B': B}[case['cls'][i]]() for i in range(n)]
        kids = {i: [] for i in range(1, n + 1)}
        for c in range(2, n + 1):
            kids[case['parSeq'][c - 2]].append(c)
        for i in range(1, n + 1):
            if kids[i]:
                toks[i].children = [toks[c] for c in kids[i]]
        idx = {id(toks[i]): i for i in range(1, n + 1)}
        try:
            got = [{'node': idx[id(y.node)], 'parent': idx[id(y.parent)] if y.parent is not None else 0, 'depth': y.depth}
                   for y in traverse(toks[1], klass=klasses[case['klass']], depth=case['limit'] or None,
                                     include_source=case['incl'] == 'yes')]
        except Exception as e:
            got = [{'exception': e.__class__.__name__}]
        want = case['yields']
        ck.count(('traverse-case', n, tuple(case['parSeq']), tuple(case['cls']), case['klass'], case['limit'], case['incl']))
        ck.traces += 1
        key = lambda y: json.dumps(y, sort_keys=True)
        if sorted(map(key, got)) != sorted(map(key, want)):
            ck.violation('traverse yields differ from spec/Traverse.tla: case=%s got=%s' % (json.dumps(case), got),
                         {'kind': 'traverse-model-case', 'case': case, 'got': got, 'clause': 'Traverse.spec-to-code'})
        elif got != want:
            drift += 1
    ck.sample({'traverse_case': cases[len(cases) // 2]})
    ck.extra['traverse_cases_replayed'] = len(cases)
    ck.extra['impl_model_drift'] = {'traverse_order_differs_from_model': drift}


def run():
    ck = core.Check('C12', 'model_checking',
                    'traversal: every case of spec/Traverse.tla (all trees <= MaxNodes nodes x 2 classes x filter x depth limit x include_source), '
                    'exhaustive, replayed through utils.traverse; shape/mirror/traversal laws: corpus, mutated, spliced and random texts parsed '
                    'under the Html, Markdown, LaTeX and XWiki token sets; distinct = distinct traversal cases + distinct (text, token set); '
                    'non-trivial = the document has at least one block')
    m = core.impl()
    from mistletoe.utils import traverse
    from mistletoe.ast_renderer import AstRenderer
    from mistletoe import block_token, span_token
    replay_traverse(ck, m)
    n = 700 if ck.tier == 'quick' else 15000
    recs, meta = [], []
    klass_opts = [('', None), ('BlockToken', block_token.BlockToken), ('SpanToken', span_token.SpanToken),
                  ('RawText', span_token.RawText), ('Paragraph', block_token.Paragraph), ('ListItem', block_token.ListItem)]
    from . import docgen
    for i, t in enumerate(inputs.texts(ck.rng, n) + docgen.texts(ck, 300 if ck.tier == 'quick' else 10000)):
        if len(t) > 600:
            continue
        for R in token_sets(m):
            try:
                with R():
                    doc = m.Document(t)
            except Exception:
                continue     # totality is C01's business
            nodes, ids, toks = dump(m, doc)
            if len(nodes) > 120:
                continue
            recs.append({'law': 'shape', 'dump': nodes})
            meta.append((t, R.__name__, 'shape'))
            # traversal from the document and from a random inner node
            for q in range(2):
                kname, kcls = klass_opts[ck.rng.randrange(len(klass_opts))]
                limit = ck.rng.choice([0, 0, 1, 2, 3])
                incl = ck.rng.random() < 0.5
                src = 1 if q == 0 else ck.rng.randrange(1, len(nodes) + 1)
                try:
                    ys = [{'node': ids.get(id(y.node), 99999), 'parent': ids.get(id(y.parent), 99999) if y.parent is not None else 0,
                           'depth': y.depth} for y in traverse(toks[src - 1], klass=kcls, depth=limit or None, include_source=incl)]
                except Exception as e:
                    ys = [{'node': 99999, 'parent': 99999, 'depth': 99999}]
                recs.append({'law': 'traverse', 'dump': [{'kids': r['kids'], 'mro': r['mro']} for r in nodes], 'src': src,
                             'klass': kname, 'depthLimit': limit, 'includeSource': 'yes' if incl else 'no', 'yields': ys})
                meta.append((t, R.__name__, 'traverse src=%d klass=%s depth=%s include_source=%s' % (src, kname, limit, incl)))
            try:
                out = AstRenderer().render(doc)
                j = json.loads(out)
                rec = {'law': 'mirror', 'valid': 'yes', 'ast': tree_of_json(j), 'tree': tree_of(doc)}
            except ValueError:
                rec = {'law': 'mirror', 'valid': 'no', 'ast': {}, 'tree': {}}
            except Exception as e:
                rec = {'law': 'mirror', 'valid': 'exception ' + e.__class__.__name__, 'ast': {'t': ''}, 'tree': {'t': 'x'}}
            recs.append(rec)
            meta.append((t, R.__name__, 'mirror'))
    verdicts, st = core.judge('TreeShapeTrace', 'Trace.cfg', recs, ck.work, shard=500)
    ck.add_tlc(st)
    ck.traces += len(recs)
    for (t, rn, what), r, v in zip(meta, recs, verdicts):
        ck.count((t, rn, what) if t.strip() else None)
        if what == 'shape':
            ck.sample({'text': t, 'token_set': rn, 'nodes': len(r['dump']), 'verdict': v}, limit=8)
        if v != 'ok':
            ck.violation('%s: text=%r token set=%s (%s)' % (v, t, rn, what), {'text': t, 'token_set': rn, 'what': what, 'clause': v})
    # binding self-test: wrong parent link, a yield with a wrong depth, a changed AST attribute
    bad = []
    for r in recs:
        r2 = json.loads(json.dumps(r))
        if r['law'] == 'shape' and len(r['dump']) > 2:
            r2['dump'][-1]['parent'] = 1 if r2['dump'][-1]['parent'] != 1 else 2
        elif r['law'] == 'traverse' and r['yields']:
            r2['yields'][0]['depth'] += 1
        elif r['law'] == 'mirror' and r['valid'] == 'yes':
            r2['ast']['t'] += 'x'
        else:
            continue
        bad.append(r2)
        if len(bad) >= 60:
            break
    bv, _ = core.judge('TreeShapeTrace', 'Trace.cfg', bad, ck.work)
    if any(v == 'ok' for v in bv):
        raise core.MachineryError('binding self-test: a corrupted tree record was accepted')
    ck.extra['binding_selftest'] = '%d corrupted records rejected' % len(bv)
    ck.exhaustive = False
    ck.assumptions = ['the order in which utils.traverse yields is not part of the property (compared as a set; order differences are reported as drift)',
                      "a table's header row is held in .header, not in .children: its own parent link is not demanded, its cells' links are"]
    return ck.finish()


def replay(path):
    rep = json.load(open(path))['replay']
    print(json.dumps(rep, indent=1)[:3000])
    return 1
