"""
C04 - quoting or list-indenting any document wraps its parse unchanged.

Code -> spec: the embedded text is built purely textually from the base text; both are parsed by
the real parser, projected without line numbers, and TLC evaluates Laws!QuoteLaw / Laws!ListLaw.
"""
import json
import re

from . import core, inputs, proj

THEMATIC = re.compile(r'^ {0,3}([-_*])( *\1){2,} *$')
WS_ONLY = re.compile(r'^[ ]+$', re.M)


def in_domain(text):
    """No tabs, does not end in a blank line, not empty, only LF line ends."""
    if not text or '\t' in text or not inputs.only_lf(text):
        return False
    lines = text.split('\n')
    if lines[-1] == '':
        lines.pop()
    if not lines or lines[-1].strip() == '':
        return False
    return True


def lines_of(text):
    lines = text.split('\n')
    if lines[-1] == '':
        lines.pop()
    return lines


def embed_quote(text, bare):
    out = []
    for ln in lines_of(text):
        if bare and not ln.startswith(' '):
            out.append('>' + ln)
        else:
            out.append('> ' + ln)
    return '\n'.join(out) + '\n'


def embed_list(text, marker, pad):
    """None when outside the domain of the list law."""
    lines = lines_of(text)
    if lines[0][:1] in ('', ' '):
        return None
    if WS_ONLY.search(text):
        return None       # a whitespace-only line is "blank": the statement does not say how it is embedded
    w = len(marker) + pad
    first = marker + ' ' * pad + lines[0]
    if THEMATIC.match(first):
        return None       # marker/thematic-break coincidence, resolved the other way by the specification
    out = [first]
    for ln in lines[1:]:
        out.append(' ' * w + ln if ln != '' else '')
    return '\n'.join(out) + '\n'


MARKERS = ['+', '-', '*', '1.', '1)', '0.', '7)', '42.', '007.', '123456789)']


def has_type(nodes, name):
    return name in proj.types_in(nodes)


def run():
    ck = core.Check('C04', 'exploration',
                    'base texts from corpus examples, seeded mutations/splices and random strings (no tabs, not ending in a blank line); '
                    'each embedded with quote markers ("> " everywhere / ">" where the line does not start with a space) and with list '
                    'markers x padding 1-4; distinct = distinct (text, embedding); non-trivial = base parse has at least one block')
    m = core.impl()
    n = 1500 if ck.tier == 'quick' else 40000
    base = []
    seen = set()
    from . import docgen
    gen = docgen.texts(ck, 600 if ck.tier == 'quick' else 20000)
    from . import blockparse
    gen += blockparse.texts(ck, 1000 if ck.tier == 'quick' else 15000)
    ck.extra['docgen_base_texts'] = len(gen)
    for t in gen + inputs.texts(ck.rng, n * 2, no_tabs=True):
        if t in seen or len(t) > 500 or not in_domain(t):
            continue
        seen.add(t)
        base.append(t)
        if len(base) >= n + len(gen):
            break
    recs, meta = [], []
    for t in base:
        try:
            d = m.Document(t)
        except Exception:
            continue
        b = proj.blocks(d, lines=False)
        bd = proj.defs(d)
        embs = [('quote', 'sp', embed_quote(t, False)), ('quote', 'bare', embed_quote(t, True))]
        ks = ck.rng.sample(range(len(MARKERS) * 4), 4 if ck.tier == 'quick' else 10)
        for k in ks:
            mk, pad = MARKERS[k // 4], 1 + k % 4
            e = embed_list(t, mk, pad)
            if e is not None:
                embs.append(('list', '%s/%d' % (mk, pad), e))
        for law, how, e in embs:
            try:
                de = m.Document(e)
            except Exception:
                continue
            r = {'law': law, 'base': b, 'baseDefs': bd, 'emb': proj.blocks(de, lines=False), 'embDefs': proj.defs(de)}
            if law == 'list':
                mk = how.split('/')[0]
                start = repr(int(mk[:-1])) if len(mk) > 1 else 'None'
                r['listAttr'] = 'loose=False;start=%s' % start
                r['listAttrLoose'] = 'loose=True;start=%s' % start
            recs.append(r)
            meta.append((t, law, how, e))
    verdicts, st = core.judge('LawsTrace', 'Trace.cfg', recs, ck.work, shard=1500)
    ck.add_tlc(st)
    ck.traces = len(recs)
    for (t, law, how, e), r, v in zip(meta, recs, verdicts):
        ck.count((t, law, how) if r['base'] else None)
        ck.sample({'text': t, 'embedding': law + ':' + how, 'embedded': e, 'verdict': v})
        if v != 'ok':
            classes = []
            if law == 'quote' and has_type(r['base'], 'SetextHeading'):
                classes.append('quote-embedding-of-setext-heading')
            if inputs.has_unicode_blank_line(t):
                classes.append('unicode-whitespace-only-line')
            ck.violation('%s: text=%r embedding=%s:%s' % (v, t, law, how),
                         {'text': t, 'law': law, 'how': how, 'embedded': e, 'clause': v, 'classes': classes})
    ck.extra['binding_selftest'] = selftest(ck, recs[:80])
    ck.assumptions = ['texts with a whitespace-only (non-empty) line are outside the list law: the statement does not say whether such a "blank" line receives the W spaces',
                      'the known-finding class "quote-embedding-of-setext-heading" is decided from the base parse containing a SetextHeading token']
    return ck.finish()


def selftest(ck, recs):
    bad = []
    for r in recs:
        if not r['base']:
            continue
        r2 = json.loads(json.dumps(r))
        r2['base'][0]['a'] += '!'
        bad.append(r2)
    if not bad:
        return 'no record'
    verdicts, st = core.judge('LawsTrace', 'Trace.cfg', bad, ck.work)
    if any(v == 'ok' for v in verdicts):
        raise core.MachineryError('binding self-test: a corrupted embedding record was accepted')
    return '%d corrupted records, all rejected' % len(bad)


def replay(path):
    rep = json.load(open(path))['replay']
    m = core.impl()
    ck = core.Check('C04', 'exploration', 'replay')
    d, de = m.Document(rep['text']), m.Document(rep['embedded'])
    r = {'law': rep['law'], 'base': proj.blocks(d, False), 'baseDefs': proj.defs(d), 'emb': proj.blocks(de, False), 'embDefs': proj.defs(de)}
    if rep['law'] == 'list':
        mk = rep['how'].split('/')[0]
        start = repr(int(mk[:-1])) if len(mk) > 1 else 'None'
        r['listAttr'] = 'loose=False;start=%s' % start
        r['listAttrLoose'] = 'loose=True;start=%s' % start
    verdicts, st = core.judge('LawsTrace', 'Trace.cfg', [r], ck.work)
    print('replay verdict:', verdicts[0])
    ck.work.cleanup()
    return 0 if verdicts[0] == 'ok' else 1
