"""
C11 - results depend only on input and renderer, never on earlier library use.

Spec -> code: spec/Registry.tla is explored by TLC (all histories up to a length bound, and modulo the
model state beyond it; long random histories in -simulate mode); every transition is exported as
(history, expected token lists).  The harness replays each history on the real library and
  * compares the real module-level token lists with the model's after the last operation
    (a violation after an exit or at a quiescent point; otherwise only reported as model drift),
  * at every quiescent point renders the probe documents through self-contained
    mistletoe.markdown calls and parses a bare Document, and compares with what a fresh interpreter
    produced for the same arguments.
"""
import json
import multiprocessing as mp
import os
import re
import subprocess
import sys
from concurrent.futures import ThreadPoolExecutor

from . import core, proj

PROBES = {
    'plain': 'hello world again and again\n',
    'inline-entity': '[x](/u&ouml "t&copy") ![y](/u&ouml) &ouml &copy\n\n```py&copy\ncode\n```\n',
    'setext': 'Foo\n---\n\nBar\n===\n\n###\n\n    code\n',
    # references to labels that only OTHER probe documents define: must stay literal whatever was parsed (or failed to parse) before
    'uses-ref': '[ref] and [ent] and ![ref][]\n',
    # an HTML block whose end condition is a marker (kind 2), then one that ends at a blank line (kind 7): what the first one
    # leaves in the class-level scratch of HtmlBlock must not decide where the second one ends
    'html-comment': 'intro\n\n<!-- a comment\nover two lines -->\n\ntext\n',
    'html-custom': '<span class="x">\n*inside*\n\nafter *block*\n\n<?php echo 1; ?>\n',
    'heading-last': 'text\n\n> ## Quoted title ##\n\n# Release notes\n',        # leaves the scratch state of a heading WITH text behind
    # every construct in its EMPTY spelling: scratch state that a reader fills only when there is something to put in shows here
    'empties': '### ###\n\n# #\n\n##\n\n```\n```\n\n-\n\n>\n\n~~~ \n~~~\n\n1.\n\n| |\n|-|\n',
    'composite': ('Setext one\n---\n\n# ATX after `code` &amp; &copy; [ref] [ent]\n\n> quote with `span`\n> Foo\n> ---\n\n>\n\n-\n\n## closed ##\n\n##\n\n'
                  'hello `code` world <b>raw</b> $x$ [[a|b]] \\* *em* {{m}}\n\n~~~py\nfence\n~~~\n\n<div>\nhtml block\n</div>\n\n'
                  '- item `c`\n\n    indented\n\n| a | b |\n|---|---|\n| 1 | 2 |\n\n[ref]: /url "title"\n[ent]: /u&ouml "t&copy"\n'),
}

KIND_CLASSES = {
    'Html': [('mistletoe.html_renderer', 'HtmlRenderer', {}), ('mistletoe.contrib.toc_renderer', 'TocRenderer', {}),
             ('mistletoe.contrib.pygments_renderer', 'PygmentsRenderer', {}), ('mistletoe.contrib.jira_renderer', 'JiraRenderer', {})],
    'Plain': [('mistletoe.ast_renderer', 'AstRenderer', {}), ('mistletoe.html_renderer', 'HtmlRenderer', {'process_html_tokens': False})],
    'GithubWiki': [('mistletoe.contrib.github_wiki', 'GithubWikiRenderer', {})],
    'MathJax': [('mistletoe.contrib.mathjax', 'MathJaxRenderer', {})],
    'LaTeX': [('mistletoe.latex_renderer', 'LaTeXRenderer', {})],
    'Markdown': [('mistletoe.markdown_renderer', 'MarkdownRenderer', {})],
    'XWiki': [('mistletoe.contrib.xwiki20_renderer', 'XWiki20Renderer', {})],
    'Scheme': [('mistletoe.contrib.scheme', 'Scheme', {})],
}

FRESH_SCRIPT = r'''
import sys, json, importlib
sys.path.insert(0, sys.argv[1])
sys.path.insert(0, sys.argv[2])
job = json.loads(sys.argv[3])
import mistletoe
from harness import proj
if job['what'] == 'render':
    R = getattr(importlib.import_module(job['mod']), job['cls'])
    if job['kw']:
        import functools
        R = functools.partial(R, **job['kw'])
    print(json.dumps(mistletoe.markdown(job['text'], R)))
else:
    d = mistletoe.Document(job['text'])
    print(json.dumps([proj.blocks(d), proj.defs(d)]))
'''


def fresh(job):
    p = subprocess.run([sys.executable, '-c', FRESH_SCRIPT, core.REPO, core.VERIF, json.dumps(job)], stdout=subprocess.PIPE,
                       stderr=subprocess.PIPE, env=dict(os.environ, PYTHONHASHSEED='0'), timeout=120)
    if p.returncode != 0:
        last = (p.stderr.decode(errors='replace').strip().splitlines() or ['?'])[-1]
        return 'EXCEPTION ' + last.split(':')[0].split('.')[-1].strip()
    return json.loads(p.stdout.decode())


def fresh_table():
    """(probe, module, class, kwargs) -> output in a fresh interpreter; one interpreter per entry."""
    jobs = []
    for pname, text in PROBES.items():
        for kind, classes in KIND_CLASSES.items():
            if kind == 'Scheme':
                continue
            for mod, cls, kw in classes:
                jobs.append(('%s|%s|%s|%s' % (pname, mod, cls, json.dumps(kw, sort_keys=True)),
                             {'what': 'render', 'text': text, 'mod': mod, 'cls': cls, 'kw': kw}))
        jobs.append(('%s|bare' % pname, {'what': 'parse', 'text': text}))
    with ThreadPoolExecutor(max_workers=core.NCPU) as ex:
        outs = list(ex.map(lambda j: fresh(j[1]), jobs))
    return {k: o for (k, _), o in zip(jobs, outs)}


# ---------------------------------------------------------------------------------------------
# replay machinery (runs inside worker processes)

class Boom(Exception):
    pass


_W = {}


def _setup():
    if _W:
        return _W
    import importlib
    m = core.impl()
    from mistletoe import block_token, span_token, core_tokens, token as token_mod
    import html as html_mod
    W = _W
    W.update(m=m, bt=block_token, st=span_token, ct=core_tokens, tok=token_mod, html=html_mod, std_charref=html_mod._charref)
    W['classes'] = {k: [(getattr(importlib.import_module(mod), cls), kw, '%s|%s|%s' % (mod, cls, json.dumps(kw, sort_keys=True)))
                        for mod, cls, kw in v] for k, v in KIND_CLASSES.items()}

    class FailBlock(block_token.BlockToken):
        @classmethod
        def start(cls, line):
            if line.lstrip().startswith('@@'):
                raise Boom()
            return False

        @classmethod
        def read(cls, lines):
            return None

    class FailSpanFind(span_token.SpanToken):
        @classmethod
        def find(cls, string):
            if '@@' in string:
                raise Boom()
            return []

    class FailSpanCtor(span_token.SpanToken):
        pattern = re.compile(r'(@@)')
        parse_inner = False

        def __init__(self, match):
            raise Boom()

    class FailRender(span_token.SpanToken):
        pattern = re.compile(r'(@@)')
        parse_inner = False
    W.update(FailBlock=FailBlock, FailSpanFind=FailSpanFind, FailSpanCtor=FailSpanCtor, FailRender=FailRender)
    return W


def force_clean(W):
    W['bt'].reset_tokens()
    W['st'].reset_tokens()
    try:
        W['bt'].Paragraph.parse_setext = True
        W['ct']._code_matches = []
        W['tok']._root_node = None
        W['html']._charref = W['std_charref']
    except Exception:
        pass


def lists(W):
    return [c.__name__ for c in W['bt']._token_types], [c.__name__ for c in W['st']._token_types]


def residue(W):
    """Projection of the parser scratch state; an attribute that no longer exists is 'unobservable'."""
    r = {}
    try:
        r['codeMatches'] = len(W['ct']._code_matches)
    except Exception:
        r['codeMatches'] = 'unobservable'
    try:
        r['parseSetext'] = bool(W['bt'].Paragraph.parse_setext)
    except Exception:
        r['parseSetext'] = 'unobservable'
    try:
        r['charref'] = 'std' if W['html']._charref is W['std_charref'] else 'md'
    except Exception:
        r['charref'] = 'unobservable'
    try:
        r['root'] = 'none' if W['tok']._root_node is None else 'set'
    except Exception:
        r['root'] = 'unobservable'
    return r


# every failing document registers link reference definitions before it fails (a definition is known as soon as the block
# phase has read it): what a failed parse leaves behind must not reach the next document
FAIL_TEXT = {
    'block-start': '[ref]: /leak "leaked"\n[ent]: /leak2\n\npara `c` [ref]\n\n@@ boom\n',
    'block-start-in-quote': '> [ref]: /leak\n>\n> a `c`\n>\n> @@ boom\n',
    'span-find-before-core': 'x `code` y @@ z\n\n[ref]: /leak "leaked"\n[ent]: /leak2\n',
    'span-find-between': 'x `code` y @@ z\n\n[ref]: /leak "leaked"\n[ent]: /leak2\n',
    'span-find-after-code': 'x `code` y @@ z\n\n[ref]: /leak "leaked"\n[ent]: /leak2\n',
    'span-constructor': 'x `code` y @@ z\n\n[ref]: /leak "leaked"\n[ent]: /leak2\n',
    'render-method': 'x `code` y @@ z\n\n[ref]: /leak "leaked"\n[ent]: /leak2\n',
}


def do_fail(W, site, variant):
    m, bt, st = W['m'], W['bt'], W['st']
    try:
        with m.HtmlRenderer() as r:
            if site in ('block-start', 'block-start-in-quote'):
                n = len(bt._token_types)
                bt.add_token(W['FailBlock'], [0, n // 2, n - 1][variant % 3])
            elif site == 'span-find-before-core':
                st.add_token(W['FailSpanFind'], [0, 1, st._token_types.index(st.CoreTokens)][variant % 3])
            elif site == 'span-find-between':
                st.add_token(W['FailSpanFind'], st._token_types.index(st.InlineCode))
            elif site == 'span-find-after-code':
                st.add_token(W['FailSpanFind'], st._token_types.index(st.InlineCode) + 1)
            elif site == 'span-constructor':
                st.add_token(W['FailSpanCtor'], 1 + variant % 3)
            else:
                st.add_token(W['FailRender'], 1 + variant % 3)

                def boom(token):
                    raise Boom()
                r.render_map['FailRender'] = boom
            r.render(m.Document(FAIL_TEXT[site]))
        return 'no-exception'
    except Boom:
        return 'boom'
    except Exception as e:
        return 'other:' + e.__class__.__name__


def replay_history(rec, fresh_tab, idx):
    """Returns (problems, drift) for one exported transition."""
    W = _setup()
    m = W['m']
    force_clean(W)
    stack = []
    problems, drift = [], []
    hist = rec['hist']
    for i, op in enumerate(hist):
        name, arg = op['op'], op['arg']
        try:
            if name == 'enter':
                cls, kw, _ = W['classes'][arg][(idx + i) % len(W['classes'][arg])]
                try:
                    r = cls(**kw)
                    r.__enter__()
                    stack.append(r)
                except ValueError:
                    pass           # MarkdownRenderer cannot remove Footnote: the model's EnterRaises decides whether this was expected
            elif name == 'exit':
                stack.pop().__exit__(None, None, None)
            elif name == 'render':
                cls, kw, key = W['classes'][arg][(idx + i) % len(W['classes'][arg])]
                try:
                    import functools
                    m.markdown(PROBES['composite'], functools.partial(cls, **kw) if kw else cls)
                except ValueError:
                    pass
            elif name == 'parse':
                m.Document(PROBES['inline-entity'] if (idx + i) % 2 else PROBES['composite'])
            elif name == 'fail':
                out = do_fail(W, arg, idx + i)
                if out != 'boom':
                    drift.append('fail op at %s ended with %s' % (arg, out))
        except Exception as e:
            if not stack:
                problems.append(('Registry.operation-raised-at-quiescent-point', 'operation %d (%s %s) raised %s' % (i, name, arg, e.__class__.__name__)))
            else:
                drift.append('operation %d (%s %s) raised %s inside an open context' % (i, name, arg, e.__class__.__name__))
    b, s = lists(W)
    last = hist[-1]['op']
    if b != rec['blk'] or s != rec['spn']:
        what = 'token lists after history differ from the model: block=%s span=%s expected block=%s span=%s' % (b, s, rec['blk'], rec['spn'])
        if last == 'exit' or rec['quiescent'] == 'yes':
            problems.append(('Registry.defaults-after-exit', what))
        else:
            drift.append(what)
    if rec['quiescent'] == 'yes':
        res = residue(W)
        if any(res[k] != v for k, v in (('codeMatches', 0), ('parseSetext', True), ('charref', 'std'), ('root', 'none')) if res[k] != 'unobservable'):
            drift.append('residue at quiescent point: %s' % res)
        # probes: self-contained calls compared with a fresh interpreter
        import functools
        order = ['plain', 'uses-ref', 'setext', 'composite', 'uses-ref', 'html-comment', 'html-custom', 'heading-last', 'empties', 'inline-entity'] if idx % 2 else ['uses-ref', 'plain', 'inline-entity', 'empties', 'html-custom', 'html-custom', 'setext', 'composite', 'heading-last', 'empties']
        kinds = ['Html', ['Plain', 'GithubWiki', 'MathJax', 'LaTeX', 'Markdown', 'XWiki'][idx % 6]]
        for pname in order:
            for kind in kinds if pname != 'plain' else ['Html']:
                cls, kw, key = W['classes'][kind][idx % len(W['classes'][kind])]
                try:
                    got = m.markdown(PROBES[pname], functools.partial(cls, **kw) if kw else cls)
                except Exception as e:
                    got = 'EXCEPTION ' + e.__class__.__name__
                want = fresh_tab['%s|%s' % (pname, key)]
                if got != want:
                    problems.append(('Registry.history-dependent-output', 'markdown(%s, %s) after this history differs from a fresh interpreter: %r vs %r'
                                     % (pname, key, got[:300], str(want)[:300])))
            try:
                d = m.Document(PROBES[pname])
                got = [proj.blocks(d), proj.defs(d)]
            except Exception as e:
                got = 'EXCEPTION ' + e.__class__.__name__
            if got != fresh_tab['%s|bare' % pname]:
                problems.append(('Registry.history-dependent-parse', 'bare Document(%s) after this history differs from a fresh interpreter' % pname))
    force_clean(W)
    return problems, drift


_FT = None


def _worker(args):
    recs, start = args
    out = []
    for k, rec in enumerate(recs):
        out.append(replay_history(rec, _FT, start + k))
    return out


def explore(ck, cfg, extra=(), timeout=1800):
    res = core.tlc('Registry', cfg, workers=1, timeout=timeout, extra=extra, heap='6g')
    ck.add_tlc(res)
    return res.printed_json()


def run():
    global _FT
    ck = core.Check('C11', 'model_checking',
                    'every transition of spec/Registry.tla: all histories up to length 3 (quick) / 4 (thorough) over {enter R (8 constructor kinds), exit, '
                    'self-contained render with R, bare parse, failing parse at 7 kinds of site}, context nesting <= 2; histories up to length 5/7 modulo '
                    'the model state; long random histories from TLC -simulate; distinct = distinct histories; non-trivial = history has >= 2 operations')
    quick = ck.tier == 'quick'
    _FT = fresh_table()
    bad_fresh = [k for k, v in _FT.items() if isinstance(v, str) and v.startswith('EXCEPTION')]
    if len(bad_fresh) == len(_FT):
        raise core.MachineryError('every fresh interpreter failed: %s' % _FT[bad_fresh[0]])
    ck.extra['fresh_interpreter_calls_that_raised'] = bad_fresh      # totality is C01's business; here only equality with the in-history result counts
    recs = explore(ck, 'Registry.cfg' if quick else 'Registry4.cfg')
    n_full = len(recs)
    recs += explore(ck, 'RegistryView5.cfg' if quick else 'RegistryView7.cfg')
    n_view = len(recs) - n_full
    sim = explore(ck, 'RegistrySim.cfg', extra=['-simulate', 'num=%d' % (12 if quick else 300), '-depth', '40', '-seed', str(ck.seed + 1)])
    recs += sim
    if n_full < 10000:
        raise core.MachineryError('Registry.tla exported only %d transitions' % n_full)
    chunk = 250
    jobs = [(recs[a:a + chunk], a) for a in range(0, len(recs), chunk)]
    ctx = mp.get_context('fork')
    with ctx.Pool(core.NCPU) as pool:
        results = [x for part in pool.map(_worker, jobs) for x in part]
    drift_kinds = {}
    ops_seen = set()
    for rec, (problems, drift) in zip(recs, results):
        h = rec['hist']
        key = json.dumps(h, sort_keys=True)
        ck.count(key if len(h) >= 2 else None)
        ck.traces += 1
        for o in h:
            ops_seen.add(o['op'] + ':' + o['arg'])
        for d in drift:
            k = re.sub(r'operation \d+ ', 'operation ', re.sub(r"\[.*", '', d))[:110]
            drift_kinds[k] = drift_kinds.get(k, 0) + 1
        for clause, what in problems:
            sites = sorted({o['arg'] for o in h if o['op'] == 'fail'})
            ck.violation('%s: history=%s: %s' % (clause, ' ; '.join('%s %s' % (o['op'], o['arg']) for o in h), what),
                         {'history': h, 'clause': clause, 'what': what, 'fail_sites': sites})
    if len(ops_seen) < 24:
        raise core.MachineryError('vacuous run: only %d of 24 operations were exercised' % len(ops_seen))
    for i in (3, n_full // 2, n_full + n_view // 2, len(recs) - 1):
        ck.sample({'history': ['%s %s' % (o['op'], o['arg']) for o in recs[i]['hist']], 'expected_block_list': recs[i]['blk'],
                   'expected_span_list': recs[i]['spn'], 'quiescent': recs[i]['quiescent']})
    ck.extra.update(full_histories=n_full, modulo_state_transitions=n_view, simulated_transitions=len(sim), operations_exercised=len(ops_seen),
                    impl_model_drift=drift_kinds, fresh_interpreter_entries=len(_FT))
    # binding self-test: a corrupted expectation must be rejected, and a leaked switch must be noticed
    W = _setup()
    rec = json.loads(json.dumps(recs[0]))
    rec['hist'] = [{'op': 'enter', 'arg': 'Html'}, {'op': 'exit', 'arg': ''}]
    rec['blk'] = list(reversed(rec['blk']))
    rec['quiescent'] = 'yes'
    p, _ = replay_history(rec, _FT, 0)
    if not any(c == 'Registry.defaults-after-exit' for c, _ in p):
        raise core.MachineryError('binding self-test: corrupted expected token list accepted')
    ck.extra['binding_selftest'] = 'a corrupted expected block list is rejected after an exit'
    ck.exhaustive = True
    ck.assumptions = ['"whatever was parsed or rendered before" is read as completed earlier use: outputs are compared with a fresh interpreter at quiescent points (no context open)',
                      'inside an open context only the token lists are compared with the model, and a difference there is reported as drift, not as a violation',
                      'renderers are quotiented by constructor effect (Html = Toc = Pygments = Jira; Plain = Ast = Html without HTML tokens)']
    return ck.finish()


def replay(path):
    global _FT
    rep = json.load(open(path))['replay']
    _FT = fresh_table()
    W = _setup()
    rec = {'hist': rep['history'], 'blk': lists(W)[0], 'spn': lists(W)[1], 'quiescent': 'yes'}
    force_clean(W)
    rec['blk'], rec['spn'] = lists(W)
    p, d = replay_history(rec, _FT, 0)
    for x in p:
        print(x)
    return 1 if p else 0
