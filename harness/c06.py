"""
C06 - emphasis nesting equals the specification's delimiter-run algorithm.

Spec -> code: spec/Emphasis.tla runs the CommonMark 0.30 delimiter algorithm on every string of its
class alphabet up to a length bound (exhaustive) and exports the resulting token sequence; the
harness renders '# ' + text with the real HTML renderer and compares the <h1> body with it.
Random strings over a wider alphabet (Unicode punctuation and whitespace, digits) are mapped to
classes, TLC computes their expected structure in batch, and the harness substitutes the real
characters back.
"""
import html
import json
import os
import sys
import unicodedata
from concurrent.futures import ThreadPoolExecutor

from . import core

TAGS = {-1: '<em>', -2: '</em>', -3: '<strong>', -4: '</strong>', -5: '<a href="u">', -6: '</a>', -7: '](u)'}


def expected_html(text, out):
    return ''.join(TAGS[t] if t < 0 else html.escape(text[t - 1], quote=False) for t in out)


def observed(m, text):
    try:
        with m.HtmlRenderer() as r:
            o = r.render(m.Document(['# ' + text + '\n']))
    except Exception as e:
        return 'EXCEPTION ' + e.__class__.__name__
    if o.startswith('<h1>') and o.endswith('</h1>\n'):
        return o[4:-6]
    return 'NOT-A-HEADING ' + o


def run_shards(ck, cfg, shards, timeout=3000):
    def one(sh):
        return core.tlc('Emphasis', cfg, workers=1, env={'SHARD': sh}, timeout=timeout, heap='2g')
    with ThreadPoolExecutor(max_workers=core.NCPU) as ex:
        return list(ex.map(one, shards))


def char_class(ch):
    """CommonMark 0.30 character classes for flanking."""
    if ch in '*_':
        return ch
    if ch in '\t\n\x0c\r ' or unicodedata.category(ch) == 'Zs':
        return ' '
    if ch in '!"#$%&\'()*+,-./:;<=>?@[\\]^_`{|}~' or unicodedata.category(ch).startswith('P'):
        return '.'
    return 'a'


WIDE = list('abz09') + ['é', '中', 'Ω'] + [' ', ' ', ' ', ' ', '　'] + list('.,;:!?()"\'-+=/%@$^{}|') + \
    ['—', '“', '”', '«', '»', '¡', '¿', '‐', '。', '、', '·'] + ['*'] * 14 + ['_'] * 12


def run():
    ck = core.Check('C06', 'model_checking',
                    'exhaustive: all strings over {a, space, *, _, .} up to length 7 (quick) / 9 (thorough) and over {a,*}, {a,_} up to length 12 / 14 '
                    'and over {a,*,_} up to length 10 / 12 (strings starting or ending with a space are skipped: a heading strips them and line ends count as whitespace); plus random '
                    'strings up to length 40 over Unicode punctuation/whitespace/digits mapped to classes; distinct = distinct input strings; '
                    'non-trivial = the string contains a delimiter run')
    m = core.impl()
    quick = ck.tier == 'quick'
    # design level: the index-based loop with per-kind bottoms (shaped like process_emphasis) refines the property tier
    impl = core.tlc('EmphasisImpl', 'EmphasisImpl.cfg' if quick else 'EmphasisImplT.cfg', workers=core.NCPU, env={'SHARD': '-'}, timeout=3000, heap='8g', check=False)
    if impl.error or not impl.completed:
        raise core.MachineryError('EmphasisImpl does not refine Emphasis within the bounds: %s' % (impl.error or impl.out[-1500:]))
    ck.add_tlc(impl)
    ck.extra['design_level'] = 'EmphasisImpl (index-based loop, per-kind bottoms) refines Emphasis; IndexesInRange and NoEmptyRun hold: %d states' % impl.distinct
    five = ['a', ' ', '*', '_', '.']
    shards5 = [''] + [x + y for x in five if x != ' ' for y in five]
    three = ['a', '*', '_']
    shards3 = [''] + [x + y for x in three for y in three]
    plan = [('Emphasis5q.cfg' if quick else 'Emphasis5t.cfg', shards5),
            ('EmphasisBothq.cfg' if quick else 'EmphasisBotht.cfg', shards3),
            ('EmphasisStar%s.cfg' % ('q' if quick else 't'), ['-']),
            ('EmphasisUnder%s.cfg' % ('q' if quick else 't'), ['-'])]
    n_exh = 0
    for cfg, shards in plan:
        for res in run_shards(ck, cfg, shards):
            ck.add_tlc(res)
            for rec in res.printed_json():
                text = rec['input']
                want = expected_html(text, rec['out'])
                got = observed(m, text)
                ck.count(text if ('*' in text or '_' in text) else None)
                n_exh += 1
                ck.traces += 1
                if n_exh % 20011 == 1:
                    ck.sample({'input': text, 'expected': want, 'observed': got})
                if got != want:
                    ck.violation('delimiter algorithm: input=%r expected=%r observed=%r' % (text, want, got),
                                 {'input': text, 'expected': want, 'observed': got, 'clause': 'Emphasis.structure' if not got.startswith('EXCEPTION') else 'Emphasis.failure'})
    # brackets: "look for link or image" interleaved with "process emphasis" (spec/InlineLinks.tla); "]" is written "](u)"
    six = ['a', ' ', '*', '_', '[', ']']
    shards6 = [''] + [x + y for x in six if x != ' ' for y in six]

    def one_links(sh):
        return core.tlc('InlineLinks', 'InlineLinksQ.cfg' if quick else 'InlineLinksT.cfg', workers=1, env={'SHARD': sh}, timeout=3000, heap='2g')
    with ThreadPoolExecutor(max_workers=core.NCPU) as ex:
        lres = list(ex.map(one_links, shards6))
    n_links = 0
    for res in lres:
        ck.add_tlc(res)
        for rec in res.printed_json():
            cls = rec['input']
            text = cls.replace(']', '](u)')
            # positions in `out` refer to the class string; rebuild the expected HTML from it
            want = ''.join(TAGS[t] if t < 0 else html.escape(cls[t - 1], quote=False) for t in rec['out'])
            got = observed(m, text)
            ck.count(('links', cls) if ('[' in cls and ']' in cls) else None)
            n_links += 1
            ck.traces += 1
            if n_links % 9973 == 1:
                ck.sample({'input': text, 'expected': want, 'observed': got})
            if got != want:
                ck.violation('links and emphasis: input=%r expected=%r observed=%r' % (text, want, got),
                             {'input': text, 'expected': want, 'observed': got, 'clause': 'Inline.links-and-emphasis' if not got.startswith('EXCEPTION') else 'Emphasis.failure'})
    ck.extra['strings_with_brackets'] = n_links
    image_links_layer(ck, m, quick)
    inline_scan_layer(ck, m, quick)
    link_syntax_layer(ck, m, quick)
    tag_syntax_layer(ck, m, quick)
    inline_lines_layer(ck, m, quick)
    ck.extra['exhaustive_strings'] = n_exh
    # random strings over the wide alphabet: TLC computes the expected structure of their class strings in batch
    n_rand = 4000 if quick else 100000
    texts = []
    seen = set()
    while len(texts) < n_rand:
        t = ''.join(ck.rng.choice(WIDE) for _ in range(ck.rng.randint(3, 40)))
        t = t.strip('   　')
        if not t or t in seen or t.endswith('#') or ('*' not in t and '_' not in t):
            continue
        seen.add(t)
        texts.append(t)
    dense = list('a*_') * 6 + [' ', '.']
    while len(texts) < n_rand * 3:
        t = ''.join(ck.rng.choice(dense) for _ in range(ck.rng.randint(8, 24))).strip()
        if t and t not in seen and ('*' in t or '_' in t):
            seen.add(t)
            texts.append(t)
    recs = [{'cls': [char_class(ch) for ch in t]} for t in texts]
    outs = batch(ck, recs)
    for t, out in zip(texts, outs):
        want = expected_html(t, out)
        got = observed(m, t)
        ck.count(t)
        ck.traces += 1
        if len(ck.samples) < 6:
            ck.sample({'input': t, 'expected': want, 'observed': got})
        if got != want:
            ck.violation('delimiter algorithm (wide alphabet): input=%r expected=%r observed=%r' % (t, want, got),
                         {'input': t, 'expected': want, 'observed': got, 'clause': 'Emphasis.structure' if not got.startswith('EXCEPTION') else 'Emphasis.failure'})
    ck.extra['random_strings'] = len(texts)
    ck.exhaustive = True
    # binding self-test: a corrupted expectation must be noticed
    bad = expected_html('*a*', [1, 2, 3])
    if observed(m, '*a*') == bad:
        raise core.MachineryError('binding self-test failed')
    ck.extra['binding_selftest'] = 'a corrupted expectation (<em> removed) differs from the observed output'
    ck.assumptions = ['the inline text is observed as the content of an ATX heading ("# " + text)',
                      'character classes follow CommonMark 0.30: Zs/tab/LF/FF/CR are whitespace, ASCII punctuation and Unicode P* are punctuation']
    return ck.finish()


INLINE_ALPHABETS = {'I1': ['a', ' ', '*', '`', '\\'], 'I2': ['a', '*', '`', '<', '>', '/'], 'I3': ['a', ':', '<', '>', '*', '`'],
                    'I4': ['a', ' ', '`', '<', '>', '\\', '_'],
                    'I5': ['a', ':', '<', '>', '\\'], 'I6': ['<', '!', '-', '>', 'a'], 'I7': ['<', '?', '>', 'a', '!'],
                    # entity and numeric character references
                    'E1': ['&', '#', '3', '5', ';', 'a', 'x'], 'E2': ['&', 'a', 'm', 'p', ';', 'l', 't'], 'E3': ['&', '#', '4', '2', ';', '*'],
                    'E4': ['&', 'l', 't', ';', '`', '\\', 'a']}
INLINE_UNSETTLED = {'unsettled-escaped-backtick-before-backticks', 'unsettled-autolink-address-spelling'}


def notation(s):
    """Characters outside printable ASCII spelled {U+XXXX}, as spec/InlineScan.tla spells what a character reference stands for."""
    return ''.join(c if 32 <= ord(c) < 127 else '{U+%04X}' % ord(c) for c in s)


def render_link_tokens(cls, toks):
    """Expected HTML for a token sequence of spec/InlineLinks.tla; what stands inside an image is flattened to its text (alt)."""
    out, depth = [], 0
    for t in toks:
        if t == -8:
            if depth == 0:
                out.append('<img src="u" alt="')
            depth += 1
        elif t == -9:
            depth -= 1
            if depth == 0:
                out.append('" />')
        elif t < 0:
            if depth == 0 or t == -7:
                out.append(TAGS[t])
        else:
            out.append(html.escape(cls[t - 1], quote=False))
    return ''.join(out)


def image_links_layer(ck, m, quick):
    """spec/InlineLinks.tla with image openers: every string up to 7 (quick) / 8 (thorough) characters over {a, *, [, ], !}."""
    five = ['a', '*', '[', ']', '!']
    shards = [''] + [x + y for x in five for y in five]

    def one(sh):
        return core.tlc('InlineLinks', 'InlineLinksImgQ.cfg' if quick else 'InlineLinksImgT.cfg', workers=1, env={'SHARD': sh}, timeout=3000, heap='2g')
    with ThreadPoolExecutor(max_workers=core.NCPU) as ex:
        results = list(ex.map(one, shards))
    n = imgs = 0
    for res in results:
        ck.add_tlc(res)
        for rec in res.printed_json():
            cls = rec['input']
            text = cls.replace(']', '](u)')
            want = render_link_tokens(cls, rec['out'])
            got = observed(m, text)
            ck.count(('image-links', cls) if -8 in rec['out'] else None)
            n += 1
            imgs += -8 in rec['out']
            ck.traces += 1
            if n % 9973 == 1:
                ck.sample({'input': text, 'expected': want, 'observed': got})
            if got != want:
                ck.violation('links, images and emphasis: input=%r expected=%r observed=%r' % (text, want, got),
                             {'input': text, 'expected': want, 'observed': got, 'clause': 'Inline.links-and-emphasis' if not got.startswith('EXCEPTION') else 'Emphasis.failure'})
    if n < 50000 or imgs < 3000:
        raise core.MachineryError('InlineLinks.tla (images) exported only %d strings (%d with an image)' % (n, imgs))
    ck.extra['image_links_strings'] = n
    ck.extra['image_links_strings_with_image'] = imgs


def inline_scan_layer(ck, m, quick):
    """spec/InlineScan.tla: backslash escapes, code spans, autolinks and raw HTML tags scanned from left to right, the constructs
    protecting what they cover from the delimiter algorithm; every string up to length 5 (quick) / 6 (thorough) over four raw
    alphabets, sharded by the first character."""
    jobs = [('InlineScan%s%s.cfg' % (a, 'q' if quick else 't'), ch) for a, chars in sorted(INLINE_ALPHABETS.items()) for ch in chars if ch != ' ']
    sys.path.insert(0, core.VERIF + '/tools')
    import gen_entity_table
    if gen_entity_table.table() != gen_entity_table.in_module(core.SPEC + '/InlineScan.tla'):
        raise core.MachineryError('the entity table of InlineScan.tla differs from the HTML5 table restricted to its letters')

    def one(job):
        cfg, sh = job
        return core.tlc('InlineScan', cfg, workers=1, env={'SHARD': sh}, timeout=3000, heap='2g')
    with ThreadPoolExecutor(max_workers=core.NCPU) as ex:
        results = list(ex.map(one, jobs))
    n = skipped = 0
    seen = set()
    for res in results:
        ck.add_tlc(res)
        for rec in res.printed_json():
            text = rec['input']
            if text in seen:
                continue
            seen.add(text)
            if set(rec['tags']) & INLINE_UNSETTLED:
                skipped += 1
                continue
            got = notation(observed(m, text))
            ck.count(('inline', text))
            n += 1
            ck.traces += 1
            if n % 7919 == 1:
                ck.sample({'input': text, 'expected': rec['html'], 'observed': got})
            if got != rec['html']:
                ck.violation('inline scan: input=%r expected=%r observed=%r' % (text, rec['html'], got),
                             {'input': text, 'expected': rec['html'], 'observed': got, 'classes': sorted(rec['tags']),
                              'clause': 'Inline.scan' if not got.startswith('EXCEPTION') else 'Emphasis.failure'})
    if n < (300000 if quick else 900000):
        raise core.MachineryError('InlineScan.tla exported only %d strings' % n)
    ck.extra['inline_scan_strings'] = n
    ck.extra['inline_scan_unsettled_not_judged'] = skipped


LINK_ALPHABETS = {'K1': ['a', '(', ')', '\\', ' ', '"'], 'K2': ['a', '<', '>', '\\', ' ', ')'], 'K3': ['a', "'", '(', ')', ' ', '"'],
                  'K4': ['a', '(', ')', ' '], 'K5': ['&', 'l', 't', ';', '\\', ')']}


def link_syntax_layer(ck, m, quick):
    """spec/LinkSyntax.tla: what may stand between "](" and ")" - destination in both forms, title in the three quoting styles,
    whitespace, balanced parentheses, backslash escapes; every tail up to length 5 (quick) / 6 (thorough) over three alphabets."""
    jobs = [('LinkSyntax%s%s.cfg' % (a, 'q' if quick else 't'), ch) for a, chars in sorted(LINK_ALPHABETS.items()) for ch in chars]

    def one(job):
        cfg, sh = job
        return core.tlc('LinkSyntax', cfg, workers=1, env={'SHARD': sh}, timeout=3000, heap='2g')
    with ThreadPoolExecutor(max_workers=core.NCPU) as ex:
        results = list(ex.map(one, jobs))
    n = links = 0
    seen = set()
    for res in results:
        ck.add_tlc(res)
        for rec in res.printed_json():
            text = rec['input']
            if text in seen:
                continue
            seen.add(text)
            got = notation(observed(m, text))
            ck.count(('link-syntax', text))
            n += 1
            links += rec['link'] == 'yes'
            ck.traces += 1
            if n % 4099 == 1:
                ck.sample({'input': text, 'expected': rec['html'], 'observed': got})
            if got != rec['html']:
                ck.violation('inline link syntax: input=%r expected=%r observed=%r' % (text, rec['html'], got),
                             {'input': text, 'expected': rec['html'], 'observed': got, 'classes': sorted(rec['tags']),
                              'clause': 'Inline.link-syntax' if not got.startswith('EXCEPTION') else 'Emphasis.failure'})
    if n < 15000 or links < 1000:
        raise core.MachineryError('LinkSyntax.tla exported only %d tails (%d links)' % (n, links))
    ck.extra['link_syntax_tails'] = n
    ck.extra['link_syntax_tails_that_are_links'] = links


LINE_ALPHABETS = {'N1': ['a', '`'], 'N2': ['a', '*'], 'N3': ['a', '\\', '*'], 'N4': ['a', '<', '/']}      # first characters (a text begins with no space or line end)


def observed_paragraph(m, text):
    try:
        with m.HtmlRenderer() as r:
            o = r.render(m.Document(text + '\n'))
    except Exception as e:
        return 'EXCEPTION ' + e.__class__.__name__
    if o.startswith('<p>') and o.endswith('</p>\n') and o.count('<p>') == 1:
        return o[3:-5]
    return 'NOT-ONE-PARAGRAPH ' + o


def inline_lines_layer(ck, m, quick):
    """spec/InlineLines.tla: inline content that spans lines - the paragraph level strips the indentation of continuation lines, a line
    end inside a code span is a space, spaces before a line end are dropped, two or more of them or a backslash make a hard line break;
    emphasis across lines.  Every one-paragraph text up to 8 / 9 (7 / 8 with backslashes) characters over three alphabets with a line end."""
    jobs = [('InlineLines%s%s.cfg' % (a, 'q' if quick else 't'), ch) for a, chars in sorted(LINE_ALPHABETS.items()) for ch in chars]

    def one(job):
        cfg, sh = job
        return core.tlc('InlineLines', cfg, workers=1, env={'SHARD': sh}, timeout=3000, heap='2g')
    with ThreadPoolExecutor(max_workers=core.NCPU) as ex:
        results = list(ex.map(one, jobs))
    n = multi = skipped = 0
    seen = set()
    for res in results:
        ck.add_tlc(res)
        for rec in res.printed_json():
            text = rec['input']
            if text in seen:
                continue
            seen.add(text)
            if set(rec['tags']) & INLINE_UNSETTLED:
                skipped += 1
                continue
            got = observed_paragraph(m, text)
            ck.count(('inline-lines', text) if '\n' in text else None)
            n += 1
            multi += '\n' in text
            ck.traces += 1
            if n % 4099 == 1:
                ck.sample({'input': text, 'expected': rec['html'], 'observed': got})
            if got != rec['html']:
                ck.violation('inline content across lines: input=%r expected=%r observed=%r' % (text, rec['html'], got),
                             {'input': text, 'expected': rec['html'], 'observed': got, 'classes': sorted(rec['tags']),
                              'clause': 'Inline.lines' if not got.startswith('EXCEPTION') else 'Emphasis.failure'})
    if n < 100000 or multi < 50000:
        raise core.MachineryError('InlineLines.tla exported only %d texts (%d of several lines)' % (n, multi))
    ck.extra['inline_lines_texts'] = n
    ck.extra['inline_lines_texts_of_several_lines'] = multi


TAG_ALPHABETS = {'T1': ['a', ' ', '=', '"', "'", '>'], 'T2': ['a', '=', '/', '>', ' ', '`']}


def tag_syntax_layer(ck, m, quick):
    """spec/TagSyntax.tla: the attribute grammar of an open tag (names, value specifications with unquoted, single- and double-quoted
    values, whitespace, "/>"): "<a " followed by every tail up to length 6 (quick) / 7 (thorough) over two alphabets."""
    jobs = [('TagSyntax%s%s.cfg' % (a, 'q' if quick else 't'), ch) for a, chars in sorted(TAG_ALPHABETS.items()) for ch in chars]

    def one(job):
        cfg, sh = job
        return core.tlc('TagSyntax', cfg, workers=1, env={'SHARD': sh}, timeout=3000, heap='2g')
    with ThreadPoolExecutor(max_workers=core.NCPU) as ex:
        results = list(ex.map(one, jobs))
    n = tags = 0
    seen = set()
    for res in results:
        ck.add_tlc(res)
        for rec in res.printed_json():
            text = rec['input']
            if text in seen:
                continue
            seen.add(text)
            got = observed(m, text)
            ck.count(('tag-syntax', text))
            n += 1
            tags += rec['tag'] == 'yes'
            ck.traces += 1
            if n % 4099 == 1:
                ck.sample({'input': text, 'expected': rec['html'], 'observed': got})
            if got != rec['html']:
                ck.violation('raw HTML tag syntax: input=%r expected=%r observed=%r' % (text, rec['html'], got),
                             {'input': text, 'expected': rec['html'], 'observed': got, 'classes': [],
                              'clause': 'Inline.tag-syntax' if not got.startswith('EXCEPTION') else 'Emphasis.failure'})
    if n < 50000 or tags < 1000:
        raise core.MachineryError('TagSyntax.tla exported only %d tails (%d tags)' % (n, tags))
    ck.extra['tag_syntax_tails'] = n
    ck.extra['tag_syntax_tails_that_are_tags'] = tags


def batch(ck, recs, shard=2500):
    """TLC computes the token sequences for the given class strings."""
    chunks = [recs[i:i + shard] for i in range(0, len(recs), shard)]
    files = []
    for ch in chunks:
        path = ck.work.fresh('emph') + '.ndjson'
        with open(path, 'w') as f:
            for r in ch:
                f.write(json.dumps(r) + '\n')
        files.append(path)

    def one(path):
        return core.tlc('EmphasisBatch', 'EmphasisBatch.cfg', workers=1, env={'TRACE_FILE': path, 'SHARD': '-'}, timeout=1800)
    with ThreadPoolExecutor(max_workers=core.NCPU) as ex:
        results = list(ex.map(one, files))
    outs = []
    for ch, res in zip(chunks, results):
        ck.add_tlc(res)
        got = {r['tid']: r['out'] for r in res.printed_json()}
        if len(got) != len(ch):
            raise core.MachineryError('EmphasisBatch: %d inputs, %d results' % (len(ch), len(got)))
        outs.extend(got[i + 1] for i in range(len(ch)))
    return outs


def replay(path):
    rep = json.load(open(path))['replay']
    m = core.impl()
    got = notation(observed_paragraph(m, rep['input']) if rep.get('clause') == 'Inline.lines' else observed(m, rep['input']))
    print('input=%r expected=%r observed=%r' % (rep['input'], rep['expected'], got))
    return 0 if got == rep['expected'] else 1
