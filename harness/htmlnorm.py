"""
HTML normalisation in the manner of the CommonMark test driver (test/normalize.py of the
specification repository): whitespace between block tags is insignificant, whitespace runs in
text collapse (not inside <pre>), attributes are sorted, character references are resolved and
text is re-escaped uniformly.  Applied to both sides of every comparison.
"""
import html
from html.parser import HTMLParser

BLOCK = {'article', 'header', 'aside', 'hgroup', 'blockquote', 'hr', 'iframe', 'body', 'li', 'map', 'button', 'object',
         'canvas', 'ol', 'caption', 'output', 'col', 'p', 'colgroup', 'pre', 'dd', 'progress', 'div', 'section', 'dl',
         'table', 'td', 'dt', 'tbody', 'embed', 'textarea', 'fieldset', 'tfoot', 'figcaption', 'th', 'figure', 'thead',
         'footer', 'tr', 'form', 'ul', 'h1', 'h2', 'h3', 'h4', 'h5', 'h6', 'video', 'script', 'style'}


class _P(HTMLParser):
    collapse_attr = False

    def __init__(self):
        super().__init__(convert_charrefs=False)
        self.out = []
        self.last = 'starttag'
        self.last_tag = ''
        self.in_pre = False

    def _text(self, data):
        if not self.in_pre:
            data = ' '.join(data.split(' ')) if False else _collapse(data)
            if self.last in ('starttag', 'endtag') and self.last_tag in BLOCK:
                data = data.lstrip()
        if data:
            self.out.append(('text', data))
            self.last = 'text'

    def handle_data(self, data):
        self._text(data)

    def handle_entityref(self, name):
        self._text(html.unescape('&%s;' % name))

    def handle_charref(self, name):
        self._text(html.unescape('&#%s;' % name))

    def _strip_trailing(self):
        if not self.in_pre and self.out and self.out[-1][0] == 'text':
            t = self.out[-1][1].rstrip()
            if t:
                self.out[-1] = ('text', t)
            else:
                self.out.pop()

    def handle_starttag(self, tag, attrs):
        if tag in BLOCK:
            self._strip_trailing()
        if self.collapse_attr:
            attrs = [(k, _collapse(v) if v is not None else v) for k, v in attrs]
        self.out.append(('tag', '<' + tag + ''.join(' %s="%s"' % (k, html.escape(v if v is not None else '', quote=True))
                                                   for k, v in sorted((k, v) for k, v in attrs)) + '>'))
        if tag == 'pre':
            self.in_pre = True
        self.last, self.last_tag = 'starttag', tag

    def handle_startendtag(self, tag, attrs):
        self.handle_starttag(tag, attrs)
        self.last = 'endtag'

    def handle_endtag(self, tag):
        if tag == 'pre':
            self.in_pre = False
        elif tag in BLOCK:
            self._strip_trailing()
        self.out.append(('tag', '</' + tag + '>'))
        self.last, self.last_tag = 'endtag', tag

    def handle_comment(self, data):
        self.out.append(('tag', '<!--' + data + '-->'))
        self.last, self.last_tag = 'comment', ''

    def handle_decl(self, data):
        self.out.append(('tag', '<!' + data + '>'))
        self.last, self.last_tag = 'decl', ''

    def unknown_decl(self, data):
        self.out.append(('tag', '<![' + data + ']]>'))
        self.last, self.last_tag = 'decl', ''

    def handle_pi(self, data):
        self.out.append(('tag', '<?' + data + '>'))
        self.last, self.last_tag = 'pi', ''


def _collapse(s):
    out = []
    ws = False
    for ch in s:
        if ch in ' \t\n\r\f':
            ws = True
        else:
            if ws:
                out.append(' ')
                ws = False
            out.append(ch)
    if ws:
        out.append(' ')
    return ''.join(out)


def normalize(s, collapse_attr=False):
    p = _P()
    p.collapse_attr = collapse_attr
    try:
        p.feed(s)
        p.close()
    except Exception:
        return 'UNPARSEABLE:' + s
    res = []
    for kind, v in p.out:
        if kind == 'text':
            if res and res[-1][0] == 'text':
                res[-1] = ('text', res[-1][1] + v)
            else:
                res.append((kind, v))
        else:
            res.append((kind, v))
    # merged text may again have double spaces at the seams
    return ''.join(html.escape(_collapse_keep(v), quote=False) if k == 'text' else v for k, v in res).strip()


def _collapse_keep(v):
    return v


def ws_normalize(s):
    """For C10: soft line breaks may move, so every whitespace run (outside <pre>) equals one space - also inside
    attribute values (the alt text of an image may hold a soft break)."""
    return normalize(s, collapse_attr=True)
