"""
Input sources shared by the checks: the vendored CommonMark 0.30 corpus, seeded mutations and
splices of it, random strings over Markdown-significant alphabets.
"""
import hashlib
import json
import os
import random

from . import core

CORPUS_PATH = os.path.join(core.VERIF, 'corpus', 'commonmark-0.30.json')
CORPUS_SHA256 = 'ae6129f3ce3caf4f99cf4f9a5ad3558a309652b5b887171013e2bf0797289b98'

_corpus = None


def corpus():
    global _corpus
    if _corpus is None:
        raw = open(CORPUS_PATH, 'rb').read()
        if hashlib.sha256(raw).hexdigest() != CORPUS_SHA256:
            raise core.MachineryError('vendored corpus does not match its pinned sha256')
        _corpus = json.loads(raw.decode('utf-8'))
        if len(_corpus) != 652:
            raise core.MachineryError('vendored corpus is not the 652-example 0.30 corpus')
    return _corpus


SIGNIFICANT = list('*_`[]()>-#<&\\|~!:"\'+=.1 \n') + ['    ', '\n\n', '> ', '- ', '1. ', '```', '***', '[a]: /u', '![', '](', '<a>', '&amp;', '\\\n', '  \n']
LETTERS = list('abcxyz') + ['é', 'ß', '中', 'Ω', ' ', '—', '“']


# constructs outside the CommonMark corpus (GFM tables, extension tokens) and shapes the corpus has few of
EXTRA = [
    '| a | b |\n|---|:-:|\n| 1 | 2 |\n| 3 |\n',
    'h1 | h2 | h3\n--- | --- | ---\nx | y\n',
    'text\n\n> quoted\n>\n> | a | b |\n> | - | - |\n> | 1 | 2 |\n> | 3 |\n',
    '- item\n\n  | x | y |\n  | :- | -: |\n  | 3 | 4 |\n  | 5 |\n- next\n',
    '1. one\n2. > nested\n   >\n   > | c | d |\n   > | - | - |\n   > | 7 |\n',
    '| `a\\|b` | *c* |\n|-|-|\n| [l](/u) | ![i](/s) |\n',
    'para\n| a |\n|---|\n| b |\nafter\n',
    '<div>\n*raw*\n</div>\n\n<pre>\na\n\nb\n</pre>\n\n<!-- c\n\nd -->\ntext\n',
    '> <div>\n> x\n> </div>\n\n- <span>y</span>\n  z\n',
    '~~strike~~ and ~~two\nlines~~ <b>raw</b> <http://auto.link> <me@example.com>\n',
    'a  \nb\\\nc\n\n    code  \n\n\ttab code\n',
    '1) a\n2) b\n\n10. c\n11. d\n\n- [x] task\n- [ ] task\n',
    '[ref]: /url "title"\n[ref2]: <a b> (t)\n\n[ref] ![ref2][] [x][ref]\n',
    '# h1 #\n## h2\nsetext\n===\nsetext2\n---\n###### h6 ######\n',
    '$a_b$ and $$x^2$$ [[wiki|page]] {{macro}}\n{{/macro}}\n',
    '- a\n  - b\n    - c\n      - d\n\n        e\n  f\n',
    '> a\n> > b\n> > > c\nlazy\n> d\n',
    '```py title\ncode\n```\n~~~\n~~~\n    indented\n\n    more\n',
    # the end of the document: raw blocks that keep trailing whitespace, tables without body rows, unclosed constructs
    '<div>\nraw html\n</div>  \n',
    'text\n\n<!-- a comment -->\t\n',
    'intro\n\n<pre>\nkept verbatim\n   \n',
    '- a\n\n\n',
    '```\ncode  \n\n  ',
]


def mutate(rng, text, k=None):
    """Seeded mutation: insert / delete / replace / duplicate a line / swap lines."""
    s = text
    for _ in range(k if k is not None else rng.randint(1, 3)):
        op = rng.randrange(6)
        if op == 0 and s:
            i = rng.randrange(len(s))
            s = s[:i] + s[i + 1:]
        elif op == 1:
            i = rng.randrange(len(s) + 1)
            s = s[:i] + rng.choice(SIGNIFICANT) + s[i:]
        elif op == 2 and s:
            i = rng.randrange(len(s))
            s = s[:i] + rng.choice(SIGNIFICANT) + s[i + 1:]
        elif op == 3:
            lines = s.split('\n')
            i = rng.randrange(len(lines))
            lines.insert(i, lines[rng.randrange(len(lines))])
            s = '\n'.join(lines)
        elif op == 4:
            lines = s.split('\n')
            if len(lines) > 1:
                i, j = rng.randrange(len(lines)), rng.randrange(len(lines))
                lines[i], lines[j] = lines[j], lines[i]
            s = '\n'.join(lines)
        else:
            i = rng.randrange(len(s) + 1)
            s = s[:i] + rng.choice(LETTERS) + s[i:]
    return s


def splice(rng, a, b):
    la, lb = a.split('\n'), b.split('\n')
    i, j = rng.randrange(len(la) + 1), rng.randrange(len(lb) + 1)
    return '\n'.join(la[:i] + lb[j:])


def random_text(rng, maxlen=60, alphabet=None):
    alphabet = alphabet or (SIGNIFICANT + LETTERS + list('ab ') * 3)
    return ''.join(rng.choice(alphabet) for _ in range(rng.randint(0, maxlen)))


ENDINGS = ['  \n', '\t\n', '', '\n\n', '\n   \n', ' ', '\n\n\n', '\\\n']


HEADS = ['', 'foo\n', '> foo\n', '- foo\n', '1. foo\n', '# h\n', 'foo\n\n', '> - foo\n']
MIDDLES = ['', '| a | b |\n', 'bar\n', '> baz\n', '  qux\n']
LAST_LINES = ['|---|---|', '| - | - |', '---', '===', '```', '~~~', '<div>', '<!--', '<pre>', '-', '1.', '>', '    x', '[a]: /u', '[a]:', '[a]: /u "t',
              '| a |', '***', '#', '\\', '  ', '+ +', '2)', '<?x', '> ```', '- ```', ':-:|', '$$']


def tail_text(rng):
    """A short document whose LAST line is structurally significant: what it means may depend on what follows (nothing, a blank
    line, more text) - tables without body rows, underlines, openers of blocks that run to the end of the document, ..."""
    return rng.choice(HEADS) + rng.choice(MIDDLES) + rng.choice(LAST_LINES) + rng.choice(['\n', '\n', ''])


def ending(rng, text):
    """The same document with another end: trailing whitespace on the last line, no final newline, blank lines, ..."""
    if rng.random() < 0.4:
        return tail_text(rng)
    return text.rstrip('\n') + rng.choice(ENDINGS)


def texts(rng, n, kinds=('corpus', 'mutant', 'splice', 'random', 'ending'), no_tabs=False):
    """A reproducible stream of n texts mixing the kinds given."""
    cp = [e['markdown'] for e in corpus()] + EXTRA * 3
    out = list(EXTRA) if n >= 200 else []
    i = 0
    while len(out) < n:
        kind = kinds[i % len(kinds)]
        i += 1
        if kind == 'corpus':
            t = cp[(i // len(kinds)) % len(cp)]
        elif kind == 'mutant':
            t = mutate(rng, rng.choice(cp))
        elif kind == 'splice':
            t = splice(rng, rng.choice(cp), rng.choice(cp))
        elif kind == 'ending':
            t = ending(rng, rng.choice(cp))
        else:
            t = random_text(rng)
        if no_tabs and '\t' in t:
            t = t.replace('\t', ' ')
        out.append(t)
    return out


OTHER_BREAKS = '\r\x0b\x0c\x1c\x1d\x1e\x85  '


def only_lf(text):
    return not any(c in text for c in OTHER_BREAKS)


def has_unicode_blank_line(text):
    """Some line is not blank for CommonMark (it has a character other than space/tab) but str.strip() empties it."""
    return any(l.strip(' \t') != '' and l.strip() == '' for l in text.split('\n'))
