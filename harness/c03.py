"""
C03 - documents built from Markdown constructs parse to the tree they were built from.

Spec -> code: every document typed by spec/DocGen.tla (exhaustive over small bounds, simulated for
breadth) carries the HTML of the tree it was built from, written by the specification itself; the
harness renders the source with the real HTML renderer and compares after the CommonMark test
normalisation.
"""
import json
import multiprocessing as mp

import re

from . import blockparse, core, docgen, htmlnorm

LITERAL = re.compile(r'<(pre|script|style|textarea)', re.I)
WS = re.compile(r'\s+')


def _worker(docs):
    m = core.impl()
    out = []
    for d in docs:
        try:
            got = htmlnorm.normalize(docgen.render_html(m, d['src']))
        except Exception as e:
            got = 'EXCEPTION ' + e.__class__.__name__
        out.append(got)
    return out


def compare(ck, docs, prop_clause):
    chunk = 400
    jobs = [docs[a:a + chunk] for a in range(0, len(docs), chunk)]
    ctx = mp.get_context('fork')
    with ctx.Pool(core.NCPU) as pool:
        got = [x for part in pool.map(_worker, jobs) for x in part]
    bad = 0
    for i, (d, g) in enumerate(zip(docs, got)):
        want = htmlnorm.normalize(d['html'])
        ck.count(d['src'] if d['nblocks'] >= 2 else None)
        ck.traces += 1
        if i % 4001 == 0:
            ck.sample({'source': d['src'], 'expected_html': d['html'], 'tags': d['tags']})
        if g != want and any(x['t'] == 'HtmlBlock' for x in d['lines']) and LITERAL.search(d['src']) and WS.sub('', g) == WS.sub('', want):
            # raw HTML that opens <pre>/<script>/<style>/<textarea> without closing it switches the normaliser to "whitespace is
            # significant" for the rest of the document; such documents are compared with all whitespace removed instead
            continue
        if g != want:
            bad += 1
            ck.violation('%s: source=%r expected=%r observed=%r tags=%s' % (prop_clause, d['src'], want, g, d['tags']),
                         {'input': d['src'], 'expected': want, 'observed': g, 'classes': sorted(d['tags']), 'clause': prop_clause})
    return bad


def run():
    ck = core.Check('C03', 'model_checking',
                    'documents typed by spec/DocGen.tla: exhaustive over all documents of <= 2 blocks at nesting <= 1 with minimal spelling ranges (quick; '
                    'thorough adds <= 2 blocks at nesting <= 2 and <= 3 blocks at nesting <= 1), plus simulated documents of up to 8 (14) blocks at nesting <= 3 (4) '
                    'with full spelling ranges; plus every line sequence of <= 3 (thorough: 4) lines over twenty line alphabets (and 5 / 6 lines over five small ones) read by spec/BlockParse.tla; '
                    'distinct = distinct source texts; non-trivial = at least two blocks')
    docs = docgen.documents(ck, 'blocks')
    compare(ck, docs, 'DocGen.html')
    # the other direction: spec/BlockParse.tla READS every line sequence up to 3 (quick) / 4 (thorough) lines over twenty line alphabets
    # and builds the tree CommonMark assigns to it; the real parser must give the HTML of that tree
    for bdocs in blockparse.document_parts(ck, 3 if ck.tier == 'quick' else 4, deep_more=True):       # (part by part: memory)
        compare(ck, bdocs, 'BlockParse.html')
    # binding self-test
    m = core.impl()
    d = docs[len(docs) // 2]
    if htmlnorm.normalize(docgen.render_html(m, d['src'])) == htmlnorm.normalize(d['html'] + '<p>x</p>'):
        raise core.MachineryError('binding self-test failed')
    ck.extra['binding_selftest'] = 'a corrupted expected HTML differs from the observed output'
    ck.exhaustive = True
    ck.assumptions = ['HTML comparison after harness/htmlnorm.py (CommonMark test normalisation) on both sides',
                      'the writer is sound by construction: every guard of DocGen.tla is a CommonMark rule; spellings whose meaning the specification text leaves open are not typed']
    return ck.finish()


def replay(path):
    rep = json.load(open(path))['replay']
    m = core.impl()
    got = htmlnorm.normalize(docgen.render_html(m, rep['input']))
    print('source   %r\nexpected %r\nobserved %r' % (rep['input'], rep['expected'], got))
    return 0 if got == rep['expected'] else 1
