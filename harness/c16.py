"""
C16 - inline tokenization tiles the source; custom tokens obey precedence rules.

Spec -> code: spec/SpanResolve.tla enumerates every ordered pair of candidate matches over positions
0..P (all 13 Allen relations x parse groups x precedences x parse_inner), checks that the fold of the
implementation tier stays inside the stated rule, and exports each configuration with its set of
admissible outcomes; the harness realises the two candidates as real SpanToken subclasses whose
`find` returns MatchObjs at those offsets, registers them through a renderer, parses, and checks
that the observed forest is one of the admissible ones.  Random triples/quadruples go through
SpanBatch.tla (model fold, WellTiled on the model) and the real tokenizer.
Code -> spec: every observed forest (pairs, triples, random regex tokens over random texts) is
projected with the offsets the custom tokens recorded and judged by TLC (SpanTrace!Cover); after the
renderer's context exits the same text must show no custom token (scoping).
"""
import json
import multiprocessing as mp
import re
from concurrent.futures import ThreadPoolExecutor

from . import core

TEXT = 'abcdefghij'
NAMES = ['CandA', 'CandB', 'CandC', 'CandD']


def make_classes(m, cands):
    from mistletoe import span_token
    from mistletoe.core_tokens import MatchObj
    out = []
    for i, c in enumerate(cands):
        def find(cls, string, c=c):
            return [MatchObj(c['s'], c['e'], (c['ps'], c['pe'], string[c['ps']:c['pe']]))]

        def init(self, match):
            self.offsets = (match.start(), match.end(), match.start(1), match.end(1))
            if not self.parse_inner:
                self.content = match.group(1)
        T = type(NAMES[i], (span_token.SpanToken,), {'parse_inner': bool(c['inner']), 'parse_group': 1, 'precedence': c['prec'],
                                                     'cand_id': i + 1, 'find': classmethod(find), '__init__': init})
        out.append(T)
    return out


def make_renderer(m, classes, order):
    """`order` lists the classes in the order they shall have in the span token list."""
    attrs = {}
    for T in classes:
        attrs[m.HtmlRenderer._cls_to_func(T.__name__)] = lambda self, token: ''
    R = type('CustomRenderer', (m.HtmlRenderer,), attrs)
    return lambda: R(*reversed(order))      # add_token inserts at position 1: the last registered comes first


def project(tok):
    if hasattr(tok, 'offsets'):
        s, e, ps, pe = tok.offsets
        kids = [project(c) for c in (tok.children or [])] if tok.parse_inner else []
        return {'k': 'tok', 'id': tok.cand_id, 's': s, 'e': e, 'ps': ps, 'pe': pe, 'inner': 'yes' if tok.parse_inner else 'no', 'kids': kids}
    if tok.__class__.__name__ == 'RawText':
        return {'k': 'raw', 'text': tok.content, 'kids': []}
    return {'k': 'raw', 'text': '<' + tok.__class__.__name__ + '>', 'kids': []}


def forest_pairs(nodes, parent=0, acc=None):
    acc = [] if acc is None else acc
    for n in nodes:
        if n['k'] == 'tok':
            acc.append([n['id'], parent])
            forest_pairs(n['kids'], n['id'], acc)
    return acc


def observe(m, text, classes, order):
    mk = make_renderer(m, classes, order)
    with mk():
        doc = m.Document(text)
    nodes = [project(c) for c in doc.children[0].children] if doc.children else []
    after = m.Document(text)
    after_classes = [c.__class__.__name__ for c in after.children[0].children] if after.children else []
    return nodes, after_classes


def canon(pairs):
    return sorted([list(p) for p in pairs])


def check_config(m, rec, P):
    """Returns (observed nodes, list of (clause, what), drift)"""
    cands = rec['cands']
    text = TEXT[:P]
    classes = make_classes(m, cands)
    orders = [list(classes)]
    if len(cands) == 2 and cands[0]['s'] == cands[1]['s'] and cands[0]['e'] != cands[1]['e']:
        orders.append(list(reversed(classes)))       # the position in the token list must not matter here
    res = []
    for order in orders:
        try:
            nodes, after = observe(m, text, classes, order)
        except Exception as e:
            res.append((None, [('Span.exception', 'tokenizer raised %s' % e.__class__.__name__)], False, [], [T.__name__ for T in order]))
            continue
        obs = canon(forest_pairs(nodes))
        problems = []
        if rec.get('stated'):
            if obs not in [canon(x) for x in rec['stated']]:
                problems.append(('Span.pair-rule', 'observed forest %s is not among the admissible outcomes %s (list order %s)'
                                 % (obs, [canon(x) for x in rec['stated']], [T.__name__ for T in order])))
        drift = obs != canon(rec['model'])
        res.append((nodes, problems, drift, after, [T.__name__ for T in order]))
    return text, res


_JOB = {}


def _worker(args):
    recs, P = args
    m = core.impl()
    out = []
    for rec in recs:
        try:
            out.append(check_config(m, rec, P))
        finally:
            from mistletoe import block_token, span_token
            block_token.reset_tokens()
            span_token.reset_tokens()
    return out


def pool_map(recs, P):
    chunk = 500
    jobs = [(recs[a:a + chunk], P) for a in range(0, len(recs), chunk)]
    ctx = mp.get_context('fork')
    with ctx.Pool(core.NCPU) as pool:
        return [x for part in pool.map(_worker, jobs) for x in part]


def random_cands(rng, P, k):
    cs = []
    for _ in range(k):
        s = rng.randrange(0, P)
        e = rng.randrange(s + 1, P + 1)
        ps = rng.randrange(s, e + 1)
        pe = rng.randrange(ps, e + 1)
        cs.append({'s': s, 'e': e, 'ps': ps, 'pe': pe, 'prec': rng.randrange(3, 8), 'inner': rng.random() < 0.7})
    cs.sort(key=lambda c: (c['s'], -c['e']))
    return cs


def batch_model(ck, sets):
    recs = [{'cands': [dict(c, inner='yes' if c['inner'] else 'no') for c in cs]} for cs in sets]
    chunks = [recs[i:i + 3000] for i in range(0, len(recs), 3000)]
    files = []
    for ch in chunks:
        path = ck.work.fresh('span') + '.ndjson'
        with open(path, 'w') as f:
            for r in ch:
                f.write(json.dumps(r) + '\n')
        files.append(path)
    with ThreadPoolExecutor(max_workers=core.NCPU) as ex:
        results = list(ex.map(lambda p: core.tlc('SpanBatch', 'SpanBatch.cfg', workers=1, env={'TRACE_FILE': p, 'SHARD': '-'}, timeout=1800), files))
    out = []
    for ch, res in zip(chunks, results):
        ck.add_tlc(res)
        got = {r['tid']: r['model'] for r in res.printed_json()}
        if len(got) != len(ch):
            raise core.MachineryError('SpanBatch: %d inputs, %d results' % (len(ch), len(got)))
        out.extend(got[i + 1] for i in range(len(ch)))
    return out


REGEX_TOKENS = [(r'a(b+)c', 1, True), (r'(x.)', 1, False), (r'\[(.*?)\]', 1, True), (r'b(c)', 1, True), (r'(ab)', 1, False),
                (r'\{(.+?)\}', 1, True), (r'(c+)', 1, True), (r'x(a*)', 1, True), (r'(\[a)', 1, False), (r'(.)\]', 1, True)]


def regex_observations(ck, m, n):
    """Random sets of <= 4 custom regex token types over random texts; returns cover records."""
    from mistletoe import span_token
    recs, meta = [], []
    alpha = 'abcx[]{} '
    for it in range(n):
        k = ck.rng.randint(1, 4)
        picks = ck.rng.sample(REGEX_TOKENS, k)
        classes = []
        for i, (pat, grp, inner) in enumerate(picks):
            def init(self, match):
                self.offsets = (match.start(), match.end(), match.start(self.parse_group), match.end(self.parse_group))
                if not self.parse_inner:
                    self.content = match.group(self.parse_group)
            classes.append(type(NAMES[i], (span_token.SpanToken,), {'pattern': re.compile(pat), 'parse_inner': inner, 'parse_group': grp,
                                                                    'precedence': ck.rng.randrange(3, 8), 'cand_id': i + 1, '__init__': init}))
        text = ''.join(ck.rng.choice(alpha) for _ in range(ck.rng.randint(1, 14))).strip()
        if not text or text[0] in '>[' and False:
            continue
        try:
            nodes, after = observe(m, text, classes, classes)
        except Exception as e:
            ck.violation('tokenizer raised %s: text=%r tokens=%s' % (e.__class__.__name__, text, picks),
                         {'text': text, 'tokens': picks, 'clause': 'Span.exception'})
            continue
        finally:
            from mistletoe import block_token
            block_token.reset_tokens()
            span_token.reset_tokens()
        recs.append({'law': 'cover', 'text': text, 'nodes': nodes})
        meta.append({'text': text, 'tokens': [[p, g, i] for p, g, i in picks]})
        recs.append({'law': 'scope', 'classes': after})
        meta.append({'text': text, 'tokens': [[p, g, i] for p, g, i in picks]})
    return recs, meta


def run():
    ck = core.Check('C16', 'model_checking',
                    'exhaustive: every ordered pair of candidates over positions 0..3 (quick) / 0..4 (thorough), precedences {3,5,7} / {3..7}, both '
                    'parse_inner values, every parse group (all 13 Allen relations), each realised with real custom tokens (both token-list orders for '
                    'equal starts); random triples and quadruples over positions 0..8; random sets of <= 4 regex token types over random texts; '
                    'distinct = distinct configurations; non-trivial = the candidates overlap')
    m = core.impl()
    quick = ck.tier == 'quick'
    P = 3 if quick else 4
    cfg = 'SpanPairs3.cfg' if quick else 'SpanPairs4.cfg'
    if quick:
        results = [core.tlc('SpanResolve', cfg, workers=1, env={'SHARD': '-'}, timeout=1800)]
    else:
        shards = ['%d%d' % (s, e) for s in range(0, P + 1) for e in range(s + 1, P + 1)]
        with ThreadPoolExecutor(max_workers=core.NCPU) as ex:
            results = list(ex.map(lambda sh: core.tlc('SpanResolve', cfg, workers=1, env={'SHARD': sh}, timeout=3000, heap='4g'), shards))
    pairs = []
    for r in results:
        ck.add_tlc(r)
        pairs.extend(r.printed_json())
    if len(pairs) < 20000:
        raise core.MachineryError('SpanResolve.tla exported only %d pairs' % len(pairs))
    cover_recs, cover_meta = [], []
    drift = 0

    def absorb(recs, outs, kind):
        nonlocal drift
        for rec, (text, res) in zip(recs, outs):
            cs = rec['cands']
            overl = any(not (a['e'] <= b['s'] or b['e'] <= a['s']) for i, a in enumerate(cs) for b in cs[i + 1:])
            ck.count((kind, json.dumps(cs, sort_keys=True)) if overl else None)
            ck.traces += 1
            for nodes, problems, d, after, order in res:
                drift += bool(d)
                rep = {'kind': kind, 'cands': cs, 'text': text, 'list_order': order}
                for clause, what in problems:
                    ck.violation('%s: candidates=%s: %s' % (clause, json.dumps(cs), what), dict(rep, clause=clause))
                if nodes is not None:
                    cover_recs.append({'law': 'cover', 'text': text, 'nodes': nodes})
                    cover_meta.append(rep)
                    cover_recs.append({'law': 'scope', 'classes': after})
                    cover_meta.append(rep)
    absorb(pairs, pool_map(pairs, P), 'pair')
    ck.sample({'pair': pairs[len(pairs) // 3]})
    # the same pair rule one level down: two candidates inside a token that spans the text and parses its inside
    tcfg = 'SpanTriples3.cfg' if quick else 'SpanTriples4.cfg'
    if quick:
        tres = [core.tlc('SpanResolve', tcfg, workers=1, env={'SHARD': '-'}, timeout=1800)]
    else:
        with ThreadPoolExecutor(max_workers=core.NCPU) as ex:
            tres = list(ex.map(lambda sh: core.tlc('SpanResolve', tcfg, workers=1, env={'SHARD': sh}, timeout=3000, heap='4g'), shards))
    triples = []
    for r in tres:
        ck.add_tlc(r)
        triples.extend(r.printed_json())
    if len(triples) < 20000:
        raise core.MachineryError('SpanResolve.tla exported only %d enclosed triples' % len(triples))
    absorb(triples, pool_map(triples, P), 'enclosed-pair')
    ck.extra['enclosed_pairs'] = len(triples)
    # triples and quadruples
    n_multi = 6000 if quick else 150000
    sets = [random_cands(ck.rng, 8, 3 + (i % 2)) for i in range(n_multi)]
    models = batch_model(ck, sets)
    multi = [{'cands': cs, 'model': mdl} for cs, mdl in zip(sets, models)]
    absorb(multi, pool_map(multi, 8), 'multi')
    ck.sample({'triple_or_quadruple': multi[0]})
    # random regex tokens
    rr, rmeta = regex_observations(ck, m, 1500 if quick else 30000)
    ck.sample({'regex_tokens': rmeta[0], 'observed': rr[0]['nodes']})
    cover_recs += rr
    cover_meta += [dict(x, kind='regex') for x in rmeta]
    verdicts, st = core.judge('SpanTrace', 'Trace.cfg', cover_recs, ck.work, shard=6000)
    ck.add_tlc(st)
    ck.traces += len(rr)
    for rep, r, v in zip(cover_meta, cover_recs, verdicts):
        if rep.get('kind') == 'regex' and r['law'] == 'cover':
            ck.count(('regex', json.dumps(rep, sort_keys=True)))
        if v != 'ok':
            ck.violation('%s: %s observed=%s' % (v, json.dumps(rep)[:400], json.dumps(r.get('nodes', r.get('classes')))[:400]), dict(rep, clause=v))
    ck.extra.update(pairs=len(pairs), triples_and_quadruples=len(multi), regex_observations=len(rr) // 2,
                    forests_judged_by_tlc=len(cover_recs), impl_model_drift={'observed_forest_differs_from_model_fold': drift})
    # binding self-test
    bad = [json.loads(json.dumps(r)) for r in cover_recs[:200] if r['law'] == 'cover' and any(n['k'] == 'tok' for n in r['nodes'])][:30]
    for b in bad:
        for n in b['nodes']:
            if n['k'] == 'tok':
                n['s'] += 1
                break
    bv, _ = core.judge('SpanTrace', 'Trace.cfg', bad, ck.work)
    if any(v == 'ok' for v in bv) or not bad:
        raise core.MachineryError('binding self-test: corrupted forest accepted')
    ck.extra['binding_selftest'] = '%d corrupted forests rejected' % len(bv)
    ck.exhaustive = True
    ck.assumptions = ['for two matches on the very same range, and for a match lying in another one behind its parse group, the statement does not settle the outcome: both readings are admitted',
                      'for equal start and equal precedence "the earlier match" is not defined: either may survive']
    return ck.finish()


def replay(path):
    rep = json.load(open(path))['replay']
    m = core.impl()
    print(json.dumps(rep, indent=1)[:2000])
    if 'cands' in rep:
        classes = make_classes(m, rep['cands'])
        order = [c for n in rep['list_order'] for c in classes if c.__name__ == n]
        nodes, after = observe(m, rep['text'], classes, order)
        print('observed now:', json.dumps(nodes))
    return 1
