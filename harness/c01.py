"""
C01 - parsing and rendering are total and terminate.

Code -> spec: every call is executed in a worker process under a per-call wall-clock budget; its
outcome is projected to (renderer, outcome, exception class, enabling facts) and TLC evaluates
Totality!Judge on every distinct projection (identical projections are merged, with a count).
The enabling facts of the three admissible refusals are decided from the input and the options,
never from the outcome.
"""
import io
import itertools
import json
import multiprocessing as mp
import os
import re
import signal
import string
import time

from . import core, inputs

BUDGET_S = 10
MAX_TIMEOUTS_PER_CHUNK = 8


def configs():
    """(name, import path, class, kwargs) for the 11 bundled renderers x options."""
    c = [('Html', 'mistletoe.html_renderer', 'HtmlRenderer', {}),
         ('Html-noraw', 'mistletoe.html_renderer', 'HtmlRenderer', {'process_html_tokens': False}),
         ('Html-esc', 'mistletoe.html_renderer', 'HtmlRenderer', {'html_escape_double_quotes': True, 'html_escape_single_quotes': True}),
         ('LaTeX', 'mistletoe.latex_renderer', 'LaTeXRenderer', {}),
         ('Ast', 'mistletoe.ast_renderer', 'AstRenderer', {}),
         ('Toc', 'mistletoe.contrib.toc_renderer', 'TocRenderer', {}),
         ('Toc-d2', 'mistletoe.contrib.toc_renderer', 'TocRenderer', {'depth': 2, 'omit_title': False}),
         ('GithubWiki', 'mistletoe.contrib.github_wiki', 'GithubWikiRenderer', {}),
         ('MathJax', 'mistletoe.contrib.mathjax', 'MathJaxRenderer', {}),
         ('Pygments', 'mistletoe.contrib.pygments_renderer', 'PygmentsRenderer', {}),
         ('Pygments-fail', 'mistletoe.contrib.pygments_renderer', 'PygmentsRenderer', {'fail_on_unsupported_language': True}),
         ('Jira', 'mistletoe.contrib.jira_renderer', 'JiraRenderer', {}),
         ('XWiki20', 'mistletoe.contrib.xwiki20_renderer', 'XWiki20Renderer', {})]
    for L in (None, 1, 2, 3, 10, 80):
        for nw in (False, True):
            if L is None or not nw or L in (3, 80):
                c.append(('Markdown-L%s%s' % (L, '-nw' if nw else ''), 'mistletoe.markdown_renderer', 'MarkdownRenderer',
                          {'max_line_length': L, 'normalize_whitespace': nw}))
    return c


CONFIGS = configs()
NEST_CHARS = set('>-+*_[~.)`')
VERB = set(string.punctuation + string.digits)


class _Timeout(Exception):
    pass


def _alarm(signum, frame):
    raise _Timeout()


_cls_cache = {}


def _get(modname, clsname):
    key = (modname, clsname)
    if key not in _cls_cache:
        import importlib
        core.impl()
        _cls_cache[key] = getattr(importlib.import_module(modname), clsname)
    return _cls_cache[key]


def facts(m, text, cfg, form='str'):
    """Enabling facts of the admissible refusals, from the input and the options."""
    name, modname, clsname, kw = cfg
    f = {'verbBlocked': 'no', 'pygFail': 'yes' if kw.get('fail_on_unsupported_language') else 'no', 'pygUnknown': 'no',
         'deep': 'yes' if sum(1 for ch in text if ch in NEST_CHARS) > 100 else 'no'}
    if clsname == 'LaTeXRenderer' and '`' in text and all(ch in text for ch in VERB):
        f['verbBlocked'] = 'yes'      # necessary condition, decided on the input text alone
    if clsname == 'PygmentsRenderer' and f['pygFail'] == 'yes' and ('```' in text or '~~~' in text):
        # decided from the parse under the HTML renderer's token set: some fenced block names a language Pygments does not know
        from pygments.lexers import get_lexer_by_name
        from pygments.util import ClassNotFound
        try:
            with m.HtmlRenderer():
                doc = m.Document(text.splitlines(keepends=True) if form == 'list' else io.StringIO(text) if form == 'file' else text)
            stack = [doc]
            while stack:
                t = stack.pop()
                if t.__class__.__name__ == 'CodeFence' and t.language:
                    try:
                        get_lexer_by_name(t.language)
                    except ClassNotFound:
                        f['pygUnknown'] = 'yes'
                stack.extend(t.children or [])
        except Exception:
            pass
    return f


def one_call(m, text, form, cfg):
    name, modname, clsname, kw = cfg
    R = _get(modname, clsname)
    if form == 'list':
        arg = text.splitlines(keepends=True)
    elif form == 'file':
        arg = io.StringIO(text)
    else:
        arg = text
    t0 = time.time()
    signal.alarm(BUDGET_S if len(text) <= 4096 else BUDGET_S * 4)
    try:
        with R(**kw) as r:
            out = r.render(m.Document(arg))
        res = ('return', type(out).__name__, '')
    except _Timeout:
        res = ('timeout', '', '')
    except RecursionError:
        res = ('raise', '', 'RecursionError')
    except BaseException as e:
        res = ('raise', '', e.__class__.__name__)
    finally:
        signal.alarm(0)
        # a failed call must not poison the next one (that is C11's subject, not this check's)
        try:
            from mistletoe import block_token, span_token, core_tokens, token as _tok
            block_token.reset_tokens()
            span_token.reset_tokens()
            block_token.Paragraph.parse_setext = True
            core_tokens._code_matches = []
            _tok._root_node = None
        except Exception:
            pass
    return res + (time.time() - t0,)


def work_chunk(args):
    texts, start, cfg_idx_lists, forms = args
    signal.signal(signal.SIGALRM, _alarm)
    m = core.impl()
    out = []
    n_to = 0
    for k, text in enumerate(texts):
        t_to = 0
        for ci in cfg_idx_lists[k]:
            cfg = CONFIGS[ci]
            form = forms[(start + k + ci) % len(forms)]
            if t_to >= 2 or n_to >= MAX_TIMEOUTS_PER_CHUNK:
                # enough calls on this input / in this chunk have exhausted their budget: each is a reported violation already;
                # running the rest would only multiply the waiting time (counted, and reported in the evidence)
                out.append((start + k, ci, form, 'skipped', 0.0))
                continue
            oc, rt, exc, wall = one_call(m, text, form, cfg)
            if oc == 'timeout' and cfg[2] != 'GithubWikiRenderer':      # (that renderer's recorded finding is slow by itself)
                t_to += 1
                n_to += 1
            if oc == 'return' and rt == 'str':
                out.append((start + k, ci, form, None, wall))
            else:
                out.append((start + k, ci, form, dict(facts(m, text, cfg, form), renderer=cfg[2], outcome=oc, resultType=rt, exc=exc), wall))
    return out


def towers(depth):
    """Nesting towers of each container / inline kind, to the given depth."""
    d = depth
    yield 'quote', '>' * d + ' a\n'
    yield 'quote-sp', '> ' * d + 'a\n'
    yield 'list', ''.join(' ' * (2 * i) + '- \n' for i in range(d - 1)) + ' ' * (2 * (d - 1)) + '- a\n'
    yield 'list-inline', '- ' * d + 'a\n'
    yield 'olist-inline', '1. ' * min(d, 60) + 'a\n'
    yield 'quote-list', '> - ' * (d // 2) + 'a\n'
    yield 'emph', '*a ' * d + 'b' + '*' * d + '\n'
    yield 'emph-alt', ''.join('*a _b ' for _ in range(d // 2)) + 'c' + ''.join('_*' for _ in range(d // 2)) + '\n'
    yield 'strong', '**a ' * d + 'b' + '**' * d + '\n'
    yield 'link-text', '[' * d + 'a' + '](u)' * d + '\n'
    yield 'image', '![' * d + 'a' + '](u)' * d + '\n'
    yield 'strike', '~~a ' * d + '~~' * d + '\n'
    yield 'brackets', '[' * d + ']' * d + '\n'
    yield 'parens', '[a](' + '(' * d + ')' * d + ')\n'

    def alt(k, P, first):
        return [first + 'x\n'] if k == 0 else [first + '-\n', '\n'] + alt(k - 1, P + '   ', P + '1. ')
    yield 'empty-item-then-other-list', ''.join(alt(min(d, 20), '', ''))

    def alt2(k, P):
        return [P + 'x\n'] if k == 0 else [P + '- a\n', '\n'] + alt2(k - 1, P + '  ') + [P + '1. b\n']
    yield 'list-then-other-list-nested', ''.join(alt2(min(d, 40), ''))
    yield 'quote-list-alternating', ''.join('> ' * i + '- ' + 'a\n' for i in range(min(d, 60)))


ALPHABETS = ['a \n*_', 'a \n>-', 'a \n`[', 'a\n[]()', 'a \n#=-', 'a\n<>&/', 'a \n\\*`', 'a\n|-: ', 'a \n~!1.', 'a\n "\'(', 'a\n\t-+ ', 'a\n*-_ ']


def input_stream(ck):
    quick = ck.tier == 'quick'
    # (ii) corpus, mutations, splices
    for t in inputs.texts(ck.rng, 2500 if quick else 60000, kinds=('corpus', 'mutant', 'mutant', 'splice')):
        yield 'corpus-derived', t, 3 if quick else 5
    # (ii-b) every prefix and every suffix of corpus examples: "the construct ends exactly here" shapes
    cp = [e['markdown'] for e in inputs.corpus()]
    step = 3 if quick else 1
    for k, t in enumerate(cp):
        if k % step:
            continue
        for i in range(1, min(len(t), 120)):
            yield 'corpus-prefix', t[:i], 1
            yield 'corpus-suffix', t[-i:], 1
    for tpl in ['[a](<b>', '![a]( <u v>', '[a](b "t"', '[a][b', '`a', '**a', '<a href="x', '<!-- a', '[a]: <b', '[a]: b "t', '| a |\n|--', '```\na', '> - a\n> -', '&#12', '\\',
                '<http://a', 'a  ', '[[a|b', '$a', '{{a}', '~~a', '1.', '-', '#']:
        for pre in ('', 'x ', '# ', '> ', '- ', '| a |\n|---|\n| '):
            yield 'unfinished-construct', pre + tpl, len(CONFIGS)
    # (ii-b') text that is special for Python string formatting / regex substitution, in every attribute-like position
    for pay in ['{inner}', '{target}', '{}', '{0}', '{', '}', '{a, b}', '%s', '%(x)s', '%', '{{', '\\\\1', '\\\\g<0>', '$1', '{title}', '{tag}', '{level}', '{attr}']:
        for tpl in ['[x](/u "%s")', '![x](/u "%s")', '[x](%s)', '![%s](/i)', '```%s\ncode\n```', '[r]: /u "%s"\n\n[r]', '<http://x/%s>', '# %s', '`%s`', '| %s |\n|---|\n| %s |',
                    '[%s][r]\n\n[r]: /u', '%s', '> %s', '- %s', '[[%s|%s]]', '$%s$', '{{%s}}']:
            yield 'format-special', tpl.replace('%s', pay), len(CONFIGS)
    # (ii-c) long runs that make a pattern backtrack
    for n in ([500] if quick else [200, 500, 1000]):
        for t in ['a [[' + ' ' * n + 'a|' + ' ' * n + 'b', '[[' + 'a ' * n + '|', '<a ' + 'b ' * n, '[a](' + ' ' * n + 'b', '`' * n + 'a', '*' * n + 'a' + '*' * n,
                  '[' * n + 'a' + ']' * n, '<' * n, '&' + 'a' * n, '\\' * n + '*', '| ' * n + '\n' + '|-' * n, '~' * n + 'a' + '~' * n, '$' * n + 'a', '{{a ' + ' ' * n + '}']:
            yield 'long-run', t, len(CONFIGS)
    # (ii-d) runs of one significant character followed / preceded by something else, in every line position: a pattern with
    # nested quantifiers only shows when it has to reject the line
    for n in ([32] if quick else [26, 32, 200]):
        for c in '=-*_`~#>+[]()<&|:!. \t\\"\'1':
            run = c * n
            for t in ['a\n' + run + 'x', run + 'x', 'x' + run, 'a\n' + run + ' x', '- ' + run + 'x', '> a\n' + run + 'x', run + '\n' + run + 'x', 'a ' + run + ' b', '| a |\n|' + run + 'x']:
                yield 'char-run', t, 2
    # (iii) exhaustive small alphabets
    L = 5 if quick else 7
    for al in ALPHABETS:
        for n in range(1, L + 1):
            for tup in itertools.product(al, repeat=n):
                yield 'exhaustive:' + repr(al), ''.join(tup), 2
    # (iv) random Unicode strings up to 4 KB
    wide = inputs.SIGNIFICANT + inputs.LETTERS + ['\u2003', '\u00a0', '\u2028', '\x0c', '\r', '\x00', '\ufeff', '\U0001f600', 'A', '0'] + list('ab ') * 4
    for i in range(600 if quick else 20000):
        k = ck.rng.choice([20, 80, 300, 1200, 4000])
        yield 'random', ''.join(ck.rng.choice(wide) for _ in range(ck.rng.randint(1, k)))[:4096], 3
    # (v) nesting towers
    for d in ([10, 50, 100] if quick else [5, 10, 25, 50, 75, 99, 100]):
        for kind, t in towers(d):
            yield 'tower:%s:%d' % (kind, d), t, len(CONFIGS)
    # pathological shapes
    for t in ['', '\n', '>', '-', '1.', '- \n', '>\n>', '* *', '```', '~~~\n', '[', ']', '![', '[]()', '<', '&', '\\', '|', '|\n-',
              '|a|\n|-|', 'a\n=', 'a\n-', '#', '# #', '    ', '\t', '\n\n\n', '[a]:', '[a]: b', '[a]: <', '[a]: b "', '- [a]: b', '> [a]: b',
              '**a****b*', '*' * 50, '_' * 50, '`' * 50, '[' * 50, '<!--', '<?', '<![CDATA[', '<a', '</a', '<a b="', '- - - -', '1. 1. 1.',
              '> > >', '>>>\n', '- \n- \n- ', '-\n\n-\n\n-', '1)\n2)\n', '* a\n\n\n* b', '|-\n|-|-\n', '~~~~', '~~a~~~~b~~', '$', '$$a$$', '[[a|b]]',
              '{{a}}', '{{/a}}', '![a](b\n', '[a](<b', '[a](b "c', '[a][', '[a][]', '[a]\n[a]: b', 'a  \n', 'a\\\n', '&#0;', '&#xFFFFFF;', '&;',
              '<a@b.c>', '<http://>', '<x:>', 'a' * 4000, ('a ' * 2000), ('> ' * 40 + 'a\n') * 40, ('- a\n' * 500), ('*a* ' * 500),
              ('[a](b) ' * 300), ('`a` ' * 500), '|' * 200 + '\n' + '|-' * 100 + '\n', ('a\n' * 1000)]:
        yield 'pathological', t, len(CONFIGS)


def run():
    ck = core.Check('C01', 'exploration',
                    'inputs: corpus examples with seeded mutations/splices; all strings up to length 5 (quick) / 7 (thorough) over 12 alphabets of 5 '
                    'Markdown-significant symbols; random Unicode strings up to 4 KB; nesting towers up to depth 100 of every container and inline '
                    'kind; hand-picked pathological shapes; x renderer configurations (all 11 bundled renderers, their boolean options, '
                    'max_line_length in {None,1,2,3,10,80}) x {str, list, file}; distinct = distinct (input, configuration, form); '
                    'non-trivial = input is not whitespace-only')
    forms = ['str', 'list', 'file']
    texts, kinds, cfgs = [], [], []
    ncfg = len(CONFIGS)
    for i, (kind, t, k) in enumerate(input_stream(ck)):
        texts.append(t)
        kinds.append(kind)
        if k >= ncfg:
            cfgs.append(list(range(ncfg)))
        else:
            cfgs.append([(i * 7 + j * 5) % ncfg for j in range(k)])
    chunk = 400
    jobs = [(texts[a:a + chunk], a, cfgs[a:a + chunk], forms) for a in range(0, len(texts), chunk)]
    results = []
    ctx = mp.get_context('fork')
    with ctx.Pool(core.NCPU) as pool:
        asyncs = [pool.apply_async(work_chunk, (j,)) for j in jobs]
        for j, a in zip(jobs, asyncs):
            try:
                results.extend(a.get(timeout=3600))
            except mp.TimeoutError:
                ck.violation('a chunk of %d inputs did not finish within an hour' % len(j[0]),
                             {'inputs': j[0][:50], 'clause': 'Totality.timeout'})
    # merge identical projections; TLC judges each distinct projection
    groups = {}
    slow = 0.0
    skipped = sum(1 for r in results if r[3] == 'skipped')
    results = [r for r in results if r[3] != 'skipped']
    ck.extra['calls_skipped_after_timeouts'] = skipped
    for (ti, ci, form, proj_, wall) in results:
        slow = max(slow, wall)
        ck.count((ti, ci, form) if texts[ti].strip() else None)
        if proj_ is None:
            proj_ = {'renderer': CONFIGS[ci][2], 'outcome': 'return', 'resultType': 'str', 'exc': '', 'verbBlocked': 'n/a',
                     'pygFail': 'n/a', 'pygUnknown': 'n/a', 'deep': 'n/a'}
        key = json.dumps(proj_, sort_keys=True)
        groups.setdefault(key, []).append((ti, ci, form))
    keys = sorted(groups)
    recs = [json.loads(k) for k in keys]
    verdicts, st = core.judge('TotalityTrace', 'TotalityTrace.cfg', recs, ck.work)
    ck.add_tlc(st)
    ck.traces = len(results)
    for k, r, v in zip(keys, recs, verdicts):
        calls = groups[k]
        if v != 'ok':
            seen_inputs = set()
            for (ti, ci, form) in sorted(calls, key=lambda c: len(texts[c[0]])):
                if (texts[ti], CONFIGS[ci][0]) in seen_inputs:
                    continue
                seen_inputs.add((texts[ti], CONFIGS[ci][0]))
                site = crash_site(texts[ti], form, CONFIGS[ci]) if r['outcome'] == 'raise' else ''
                classes = []
                if CONFIGS[ci][2] == 'GithubWikiRenderer' and re.search(r'\[\[.* {100,}', texts[ti]):
                    classes.append('wiki-link-pattern-with-long-run-of-spaces')
                ck.violation('%s: renderer=%s options=%s form=%s input=%r [%s] at %s' % (v, CONFIGS[ci][2], CONFIGS[ci][3], form, texts[ti][:200], kinds[ti], site),
                             {'input': texts[ti], 'config': CONFIGS[ci][0], 'renderer': CONFIGS[ci][2], 'options': CONFIGS[ci][3], 'form': form,
                              'clause': v, 'site': site, 'classes': classes})
                if len(seen_inputs) >= 40:
                    break
    # static configuration: render-map coverage of every configuration (drift only; a real failure shows as an outcome above)
    m = core.impl()
    cov_recs, cov_names = [], []
    from mistletoe import block_token, span_token
    for cfg in CONFIGS:
        R = _get(cfg[1], cfg[2])
        try:
            with R(**cfg[3]) as r:
                active = [c.__name__ for c in block_token._token_types] + [c.__name__ for c in span_token._token_types]
                keys = sorted(r.render_map)
            cov_recs.append({'law': 'render-map', 'active': active, 'keys': keys})
            cov_names.append(cfg[0])
        except Exception:
            pass
    cv, st3 = core.judge('TotalityTrace', 'TotalityTrace.cfg', cov_recs, ck.work)
    ck.add_tlc(st3)
    ck.extra['impl_model_drift'] = {'render_map_coverage': {n: v for n, v in zip(cov_names, cv) if v != 'ok'}}
    kc = {}
    for kd in kinds:
        kc[kd.split(':')[0]] = kc.get(kd.split(':')[0], 0) + 1
    ck.extra['inputs_by_kind'] = kc
    ck.extra['inputs'] = len(texts)
    ck.extra['configurations'] = [c[0] for c in CONFIGS]
    ck.extra['distinct_projections_judged_by_tlc'] = len(recs)
    ck.extra['outcomes'] = {k: len(v) for k, v in groups.items() if json.loads(k)['outcome'] != 'return'}
    ck.extra['slowest_call_s'] = round(slow, 3)
    for i in (0, len(texts) // 3, len(texts) // 2, len(texts) - 1):
        ck.sample({'input': texts[i][:200], 'kind': kinds[i], 'configurations': [CONFIGS[c][0] for c in cfgs[i]][:4]})
    # binding self-test
    bv, _ = core.judge('TotalityTrace', 'TotalityTrace.cfg', [
        {'renderer': 'HtmlRenderer', 'outcome': 'raise', 'resultType': '', 'exc': 'IndexError', 'verbBlocked': 'no', 'pygFail': 'no', 'pygUnknown': 'no', 'deep': 'no'},
        {'renderer': 'LaTeXRenderer', 'outcome': 'raise', 'resultType': '', 'exc': 'RuntimeError', 'verbBlocked': 'no', 'pygFail': 'no', 'pygUnknown': 'no', 'deep': 'no'},
        {'renderer': 'HtmlRenderer', 'outcome': 'raise', 'resultType': '', 'exc': 'RecursionError', 'verbBlocked': 'no', 'pygFail': 'no', 'pygUnknown': 'no', 'deep': 'no'},
        {'renderer': 'HtmlRenderer', 'outcome': 'timeout', 'resultType': '', 'exc': '', 'verbBlocked': 'no', 'pygFail': 'no', 'pygUnknown': 'no', 'deep': 'no'}], ck.work)
    if any(v == 'ok' for v in bv):
        raise core.MachineryError('binding self-test: an inadmissible outcome was accepted')
    ck.extra['binding_selftest'] = 'inadmissible outcomes rejected: ' + ', '.join(bv)
    ck.assumptions = ['RecursionError is admissible only when the input has more than 100 characters that can open a nesting level (a syntactic upper bound on nesting depth)',
                      'the LaTeX refusal is admissible only when the input contains a backtick and every \\verb delimiter candidate',
                      'per-call budget %d s (x4 above 4 KB), enforced with SIGALRM inside the worker' % BUDGET_S]
    return ck.finish()


def crash_site(text, form, cfg):
    """Innermost frame inside the package for a raising call (used to identify known findings by call site)."""
    import traceback
    m = core.impl()
    name, modname, clsname, kw = cfg
    R = _get(modname, clsname)
    try:
        with R(**kw) as r:
            r.render(m.Document(text.splitlines(keepends=True) if form == 'list' else io.StringIO(text) if form == 'file' else text))
    except BaseException as e:
        tb = traceback.extract_tb(e.__traceback__)
        for fr in reversed(tb):
            if '/mistletoe/' in fr.filename:
                return '%s:%s' % (os.path.basename(fr.filename), fr.name)
    finally:
        from mistletoe import block_token, span_token, core_tokens, token as _tok
        block_token.reset_tokens()
        span_token.reset_tokens()
        block_token.Paragraph.parse_setext = True
        core_tokens._code_matches = []
        _tok._root_node = None
    return ''


def replay(path):
    rep = json.load(open(path))['replay']
    m = core.impl()
    signal.signal(signal.SIGALRM, _alarm)
    cfg = [c for c in CONFIGS if c[0] == rep['config']][0]
    oc, rt, exc, wall = one_call(m, rep['input'], rep['form'], cfg)
    print('replay: outcome=%s type=%s exc=%s wall=%.3fs' % (oc, rt, exc, wall))
    return 0 if (oc == 'return' and rt == 'str') else 1
