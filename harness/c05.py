"""
C05 - blocks separated by a blank line are parsed independently.

Code -> spec: the harness parses A, B and A + blank line + B with the real parser, projects the
three token trees (with line numbers) and hands them to TLC, which evaluates Laws!ConcatLaw.
Side conditions are the property's own: A's last top-level block (real parse of A alone) is a
paragraph, heading, thematic break, block quote or table; neither A nor B defines link references.
"""
import json

from . import core, inputs, proj

CLOSED = {'Paragraph', 'Heading', 'SetextHeading', 'ThematicBreak', 'Quote', 'Table'}


def parse(m, text, html):
    if html:
        with m.HtmlRenderer():
            return m.Document(text)
    return m.Document(text)


def make_record(m, a, b, html):
    """Returns a law record or None when the pair is outside the property's domain."""
    if not a.endswith('\n'):
        a += '\n'
    # B is parsed first and A + blank + B last: if parsing A leaves anything behind (that would be C11's subject), the
    # combined parse sees it while B's own parse did not, so the law cannot hold by both sides being wrong alike
    db = parse(m, b, html)
    if db.footnotes:
        return None
    da = parse(m, a, html)
    if not da.children or da.children[-1].__class__.__name__ not in CLOSED or da.footnotes:
        return None
    dab = parse(m, a + '\n' + b, html)
    return {'law': 'concat', 'a': proj.blocks(da), 'b': proj.blocks(db), 'ab': proj.blocks(dab),
            'nA': len(a.splitlines()), 'defsAB': proj.defs(dab)}       # (a str is cut into lines the way str.splitlines() cuts it)


SPECIAL = ['plain text\n', 'Caf\u00e9 au lait\n', '# Caf\u00e9\n', '> \u00bfqu\u00e9?\n', 'one\x0ctwo\n', 'first\x0c# second\n', '- a\x0b- b\n', 'one\x0c***\n',
           'a\x1cb\n', 'x\x1d---\n', 'p\x1e> q\n', 'na\u00efve\n', '\u4e2d\u6587\n', 'a\u2028b\n', 'a\x85# b\n', '***\n', '| a |\n|---|\n| \u00e9 |\n', 'a\rb\n']


def run():
    ck = core.Check('C05', 'exploration',
                    'pairs (A,B) from corpus examples, seeded mutations/splices and random strings, parsed with the default '
                    'token set and with the HTML token set; distinct = distinct (A,B,token set) in the domain; non-trivial = '
                    'both A and B produce at least one block')
    m = core.impl()
    n_pool = 700 if ck.tier == 'quick' else 4000
    n_pairs = 12000 if ck.tier == 'quick' else 300000
    from . import docgen
    from . import blockparse
    pool = [t for t in inputs.texts(ck.rng, n_pool) + docgen.texts(ck, 300 if ck.tier == 'quick' else 5000)
            + blockparse.texts(ck, 500 if ck.tier == 'quick' else 8000) if len(t) < 400]
    recs, meta = [], []
    # all ordered pairs over a short list of "special" texts: whether a part holds characters of another class (non-ASCII letters,
    # the ASCII control characters str.splitlines() breaks at) must not change how the OTHER part is cut into lines and blocks
    for a in SPECIAL:
        for b in SPECIAL:
            for html in (False, True):
                try:
                    r = make_record(m, a + '\n' if not a.endswith('\n') else a, b, html)
                except Exception:
                    r = None
                if r is not None:
                    recs.append(r)
                    meta.append((a, b, html))
    ck.extra['special_pairs'] = len(recs)
    tried = 0
    while len(recs) < n_pairs and tried < n_pairs * 4:
        tried += 1
        a, b = ck.rng.choice(pool), ck.rng.choice(pool)
        html = bool(tried & 1)
        try:
            r = make_record(m, a, b, html)
        except Exception as e:   # totality is C01's business; here the pair is simply not observable
            r = None
        if r is None:
            continue
        recs.append(r)
        meta.append((a, b, html))
    verdicts, st = core.judge('LawsTrace', 'Trace.cfg', recs, ck.work, shard=1500)
    ck.add_tlc(st)
    ck.traces = len(recs)
    for (a, b, html), r, v in zip(meta, recs, verdicts):
        ck.count((a, b, html) if (r['a'] and r['b']) else None)
        ck.sample({'A': a, 'B': b, 'html_tokens': html, 'verdict': v})
        if v != 'ok':
            ck.violation('%s: A=%r B=%r html_tokens=%s' % (v, a, b, html),
                         {'A': a, 'B': b, 'html_tokens': html, 'clause': v})
    ck.extra['pairs_tried'] = tried
    ck.extra['binding_selftest'] = selftest(ck, [r for r, v in zip(recs, verdicts) if v == 'ok'][:50])      # (corrupting a record that already violates the law could repair it)
    ck.assumptions = ["A's last block and the absence of definitions are decided from the real parse of A and B alone, as the property phrases them"]
    return ck.finish()


def selftest(ck, recs):
    """Corrupt one recorded field per record; TLC must reject every corrupted record."""
    bad = []
    for r in recs:
        if not r['b']:
            continue
        r2 = json.loads(json.dumps(r))
        r2['ab'][-1]['l'] += 1
        bad.append(r2)
    if not bad:
        return 'no record with a B block'
    verdicts, st = core.judge('LawsTrace', 'Trace.cfg', bad, ck.work)
    if any(v == 'ok' for v in verdicts):
        raise core.MachineryError('binding self-test: a corrupted concat record was accepted')
    return '%d corrupted records, all rejected' % len(bad)


def replay(path):
    rep = json.load(open(path))['replay']
    m = core.impl()
    ck = core.Check('C05', 'exploration', 'replay')
    r = make_record(m, rep['A'], rep['B'], rep['html_tokens'])
    verdicts, st = core.judge('LawsTrace', 'Trace.cfg', [r], ck.work)
    print('replay verdict:', verdicts[0])
    ck.work.cleanup()
    return 0 if verdicts[0] == 'ok' else 1
