"""
C14 - ordinary prose passes through unchanged.

Spec -> code: spec/Prose.tla types paragraphs lexeme by lexeme under conservative, spec-derived
inertness guards, writes the text and the expected HTML (one <p>, text HTML-escaped); the harness
renders each text with the real HTML renderer and compares for equality.
"""
import json
import multiprocessing as mp
from concurrent.futures import ThreadPoolExecutor

from . import core


def _worker(docs):
    m = core.impl()
    out = []
    for d in docs:
        try:
            with m.HtmlRenderer() as r:
                out.append(r.render(m.Document(d['src'])))
        except Exception as e:
            out.append('EXCEPTION ' + e.__class__.__name__)
    return out


def run():
    ck = core.Check('C14', 'model_checking',
                    'paragraphs typed by spec/Prose.tla from a vocabulary of ~125 words and tricky-but-inert lexemes: exhaustive for one line of <= 2 lexemes and '
                    'two lines of one lexeme (quick; thorough: one line of <= 3 lexemes, three lines of one), two lines of <= 2 lexemes over the block-start-guarded lexemes and three words, plus simulated paragraphs of up to 4 lines x 5 lexemes; '
                    'distinct = distinct texts; non-trivial = contains a lexeme that is not a plain word')
    quick = ck.tier == 'quick'
    cfgs = ['ProseQ1.cfg', 'ProseQ2.cfg', 'ProseQ3.cfg'] if quick else ['ProseT1.cfg', 'ProseT2.cfg', 'ProseQ2.cfg', 'ProseQ3.cfg']
    docs = []
    for c in cfgs:
        r = core.tlc('Prose', c, workers=1, timeout=3000, heap='6g')
        ck.add_tlc(r)
        docs += r.printed_json()
    n_exh = len(docs)
    if n_exh < 10000:
        raise core.MachineryError('Prose.tla exported only %d paragraphs' % n_exh)
    nsim = 6000 if quick else 200000
    procs = core.NCPU

    def sim(i):
        return core.tlc('Prose', 'ProseSim.cfg', workers=1, timeout=3000,
                        extra=['-simulate', 'num=%d' % (nsim // procs), '-depth', '40', '-seed', str(ck.seed * 100 + i + 1)])
    with ThreadPoolExecutor(max_workers=procs) as ex:
        for r in ex.map(sim, range(procs)):
            ck.add_tlc(r)
            docs += r.printed_json()
    seen, uniq = set(), []
    for d in docs:
        if d['src'] not in seen:
            seen.add(d['src'])
            uniq.append(d)
    docs = uniq
    chunk = 1000
    jobs = [docs[a:a + chunk] for a in range(0, len(docs), chunk)]
    ctx = mp.get_context('fork')
    with ctx.Pool(core.NCPU) as pool:
        got = [x for part in pool.map(_worker, jobs) for x in part]
    plain = set('abcdefghijklmnopqrstuvwxyzABCDEFGHIJKLMNOPQRSTUVWXYZ0123456789 \n')
    for i, (d, g) in enumerate(zip(docs, got)):
        ck.count(d['src'] if not set(d['src']) <= plain else None)
        ck.traces += 1
        if i % 3001 == 0:
            ck.sample({'paragraph': d['src'], 'expected_html': d['html']})
        if g != d['html']:
            ck.violation('Prose.inert: paragraph=%r expected=%r observed=%r' % (d['src'], d['html'], g),
                         {'input': d['src'], 'expected': d['html'], 'observed': g, 'clause': 'Prose.inert'})
    ck.extra['exhaustive_paragraphs'] = n_exh
    ck.extra['distinct_paragraphs'] = len(docs)
    ck.extra['binding_selftest'] = 'expected and observed HTML are compared for equality (a corrupted expectation differs)'
    ck.exhaustive = True
    ck.assumptions = ['the inertness guards of Prose.tla are conservative: anything doubtful is kept out of the domain rather than asserted inert']
    return ck.finish()


def replay(path):
    rep = json.load(open(path))['replay']
    m = core.impl()
    with m.HtmlRenderer() as r:
        g = r.render(m.Document(rep['input']))
    print('expected %r\nobserved %r' % (rep['expected'], g))
    return 0 if g == rep['expected'] else 1
