"""
C19 - the table of contents lists exactly the qualifying headings, in order.

Spec -> code: spec/Toc.tla enumerates outline-shaped heading sequences (levels, six variants of
title / placement / spelling), writes the Markdown source itself and, for every configuration
(depth x omit_title x filter) inside the property's domain, exports the expected entries with
their parents.  The harness renders the source with the real TocRenderer, reads `.toc`, projects the
nested list to (title, parent) in document order and compares for equality.
"""
import json
import multiprocessing as mp

from . import core

FILTERS = {'none': [], 'has-x': [lambda s: 'x' in s], 'starts-b': [lambda s: s.startswith('b')]}


def project_toc(lst):
    """block_token.List -> [(title, parent index)] in document order (pre-order)."""
    out = []

    def plain(tok):
        if tok.children is None:
            return getattr(tok, 'content', '')
        return ''.join(plain(c) for c in tok.children)

    def walk(l, parent):
        if l.__class__.__name__ != 'List':
            out.append({'title': '<%s>' % l.__class__.__name__, 'parent': parent})
            return
        for item in l.children:
            kids = list(item.children)
            title = plain(kids[0]) if kids and kids[0].__class__.__name__ == 'Paragraph' else '<no paragraph>'
            out.append({'title': title, 'parent': parent})
            me = len(out)
            for k in kids[1:]:
                walk(k, me)
    walk(lst, 0)
    return out


def observe(m, src, case):
    from mistletoe.contrib.toc_renderer import TocRenderer
    try:
        with TocRenderer(depth=case['depth'], omit_title=case['omit'] == 'yes', filter_conds=FILTERS[case['filter']]) as r:
            r.render(m.Document(src))
            toc = r.toc
        return project_toc(toc)
    except Exception as e:
        return [{'title': 'EXCEPTION ' + e.__class__.__name__, 'parent': 0}]


def _worker(docs):
    m = core.impl()
    out = []
    for d in docs:
        res = []
        for case in d['cases']:
            res.append(observe(m, d['src'], case))
        out.append(res)
    return out


def run():
    ck = core.Check('C19', 'model_checking',
                    'every outline-shaped heading sequence of <= 3 (quick) / 4 (thorough) headings over levels 1..3 / 1..4 x six variants (title word, top level / '
                    'block quote / list item, ATX / ATX with closing hashes / setext) x every configuration depth 1..6 x omit_title x 3 filters inside the '
                    'domain (first qualifying heading at indentation 0, qualifying headings form an outline); exhaustive within these bounds; '
                    'distinct = distinct (document, configuration); non-trivial = at least two entries')
    m = core.impl()
    res = core.tlc('Toc', 'TocQ.cfg' if ck.tier == 'quick' else 'TocT.cfg', workers=1, timeout=3000, heap='6g')
    ck.add_tlc(res)
    docs = res.printed_json()
    res2 = core.tlc('Toc', 'TocQ2.cfg', workers=1, timeout=3000, heap='6g')      # longer outlines (drops of two and more levels), two variants
    ck.add_tlc(res2)
    docs += res2.printed_json()
    res3 = core.tlc('Toc', 'TocQ3.cfg', workers=1, timeout=3000, heap='6g')      # repeated heading texts at different levels
    ck.add_tlc(res3)
    docs += res3.printed_json()
    if len(docs) < 2000:
        raise core.MachineryError('Toc.tla exported only %d documents' % len(docs))
    chunk = 100
    jobs = [docs[a:a + chunk] for a in range(0, len(docs), chunk)]
    ctx = mp.get_context('fork')
    with ctx.Pool(core.NCPU) as pool:
        results = [x for part in pool.map(_worker, jobs) for x in part]
    ncase = 0
    for d, res_ in zip(docs, results):
        for case, got in zip(d['cases'], res_):
            ncase += 1
            want = [{'title': e['title'], 'parent': e['parent']} for e in case['entries']]
            cfg = {'depth': case['depth'], 'omit_title': case['omit'], 'filter': case['filter']}
            ck.count((d['src'], json.dumps(cfg, sort_keys=True)) if len(want) >= 2 else None)
            ck.traces += 1
            if ncase % 9973 == 1:
                ck.sample({'source': d['src'], 'config': cfg, 'expected': want, 'observed': got})
            if got != want:
                ck.violation('table of contents differs: source=%r config=%s expected=%s observed=%s' % (d['src'], cfg, want, got),
                             {'source': d['src'], 'config': cfg, 'expected': want, 'observed': got, 'clause': 'Toc.entries'})
    ck.extra['documents'] = len(docs)
    ck.extra['cases'] = ncase
    # binding self-test
    d = [x for x in docs if x['cases']][len(docs) // 3]
    case = d['cases'][0]
    got = observe(m, d['src'], case)
    if got == [{'title': e['title'] + '!', 'parent': e['parent']} for e in case['entries']]:
        raise core.MachineryError('binding self-test failed')
    ck.extra['binding_selftest'] = 'a corrupted expected title differs from the observed table of contents'
    ck.exhaustive = True
    ck.assumptions = ['"first heading at the shallowest level" is read on the qualifying headings: the first entry has indentation 0 in the TOC (level 1, or level 2 with omit_title)',
                      'documents without any qualifying heading are outside the domain (the statement does not say what an empty table of contents is)',
                      'setext headings are not placed inside block quotes (recorded finding C04-setext-in-quote)']
    return ck.finish()


def replay(path):
    rep = json.load(open(path))['replay']
    m = core.impl()
    c = rep['config']
    got = observe(m, rep['source'], {'depth': c['depth'], 'omit': c['omit_title'], 'filter': c['filter']})
    print('expected', rep['expected'])
    print('observed', got)
    return 0 if got == rep['expected'] else 1
