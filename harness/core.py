"""
Harness core: paths, seeds, implementation loading, TLC runner, trace judgement,
evidence and known-findings plumbing.

Nothing in here decides a property.  Verdicts come from TLC evaluating TLA+
definitions (trace judgement) or from comparing, for equality, a value TLC
exported with the value the implementation produced (replay).
"""
import hashlib
import json
import os
import random
import re
import shutil
import subprocess
import sys
import time
from concurrent.futures import ThreadPoolExecutor

VERIF = os.path.dirname(os.path.dirname(os.path.abspath(__file__)))
REPO = os.environ.get('VERIF_REPO', '/repo')
SPEC = os.path.join(VERIF, 'spec')
WORK_ROOT = os.path.join(VERIF, '.work')
JAR = '/opt/veriftools/tla/tla2tools.jar:/opt/veriftools/tla/CommunityModules-deps.jar'
NCPU = min(16, os.cpu_count() or 1)


def seed():
    try:
        return int(os.environ.get('VERIF_SEED', '0') or 0)
    except ValueError:
        return int(hashlib.sha256(os.environ['VERIF_SEED'].encode()).hexdigest()[:8], 16)


def tier(default='quick'):
    t = os.environ.get('VERIF_TIER', default)
    return t if t in ('quick', 'thorough') else default


class MachineryError(Exception):
    """The checker itself failed (exit 2); never a verdict about the code."""


# --------------------------------------------------------------------------------------
# implementation under test

_impl = None


def impl():
    """Import mistletoe from the tree under test (VERIF_REPO, default /repo)."""
    global _impl
    if _impl is None:
        if REPO not in sys.path[:1]:
            sys.path.insert(0, REPO)
        for name in list(sys.modules):
            if name == 'mistletoe' or name.startswith('mistletoe.'):
                del sys.modules[name]
        import mistletoe
        here = os.path.realpath(os.path.dirname(mistletoe.__file__))
        want = os.path.realpath(os.path.join(REPO, 'mistletoe'))
        if here != want:
            raise MachineryError('mistletoe imported from %s, expected %s' % (here, want))
        _impl = mistletoe
    return _impl


# --------------------------------------------------------------------------------------
# work directories

class Work:
    def __init__(self, name):
        self.dir = os.path.join(WORK_ROOT, '%s-%d' % (name, os.getpid()))
        shutil.rmtree(self.dir, ignore_errors=True)
        os.makedirs(self.dir, exist_ok=True)
        self.n = 0

    def path(self, name):
        return os.path.join(self.dir, name)

    def fresh(self, stem):
        self.n += 1
        return os.path.join(self.dir, '%s-%d' % (stem, self.n))

    def cleanup(self):
        shutil.rmtree(self.dir, ignore_errors=True)


# --------------------------------------------------------------------------------------
# TLC

_STATS = re.compile(r'(\d+) states generated, (\d+) distinct states found, (\d+) states left on queue')
_DEPTH = re.compile(r'The depth of the complete state graph search is (\d+)')
_SIMSTATS = re.compile(r'The number of states generated: (\d+)')


class TlcResult:
    def __init__(self, out, rc, wall):
        self.out = out
        self.rc = rc
        self.wall = wall
        m = None
        for m in _STATS.finditer(out):
            pass
        self.generated = int(m.group(1)) if m else 0
        self.distinct = int(m.group(2)) if m else 0
        m = _SIMSTATS.search(out)
        if m and not self.generated:
            self.generated = int(m.group(1))
        m = _DEPTH.search(out)
        self.diameter = int(m.group(1)) if m else 0
        self.completed = ('Model checking completed. No error has been found.' in out
                          or 'Finished in' in out and 'Error:' not in out)
        self.error = None
        if 'Error:' in out:
            i = out.index('Error:')
            self.error = out[i:i + 1500]

    def printed_json(self):
        """Records printed by PrintT(ToJson(..)): one TLA+ string literal per line."""
        recs = []
        for line in self.out.splitlines():
            if line.startswith('"{') or line.startswith('"['):
                try:
                    recs.append(json.loads(json.loads(line)))
                except ValueError:
                    raise MachineryError('damaged TLC output line: %r' % line[:200])
        return recs

    def coverage(self):
        """Per-action counts from -coverage output: {action: (distinct, total)}."""
        cov = {}
        for m in re.finditer(r'<(\w+) line \d+, col \d+ to line \d+, col \d+ of module (\w+)>: (\d+):(\d+)', self.out):
            cov['%s!%s' % (m.group(2), m.group(1))] = (int(m.group(3)), int(m.group(4)))
        return cov


def tlc(module, cfg, workers=1, env=None, timeout=900, extra=(), metadir=None, heap='3g',
        cwd=SPEC, check=True):
    """Run TLC on spec/<module>.tla with spec/<cfg>.  Returns TlcResult."""
    if metadir is None:
        metadir = os.path.join(WORK_ROOT, 'meta-%d-%d' % (os.getpid(), random.getrandbits(40)))
    os.makedirs(metadir, exist_ok=True)
    # (TLC leaves a tlc-* entry in java.io.tmpdir on every run: keep them with the metadata, which is removed below)
    cmd = ['java', '-XX:+UseParallelGC', '-Xss512m', '-Xmx' + heap, '-Dfile.encoding=UTF-8', '-Djava.io.tmpdir=' + metadir, '-cp', JAR, 'tlc2.TLC',
           '-workers', str(workers), '-metadir', metadir, '-noGenerateSpecTE', '-nowarning',
           '-config', cfg] + list(extra) + [module]
    e = dict(os.environ)
    e.pop('JAVA_TOOL_OPTIONS', None)
    if env:
        e.update({k: str(v) for k, v in env.items()})
    t0 = time.time()
    try:
        p = subprocess.run(cmd, cwd=cwd, env=e, stdout=subprocess.PIPE, stderr=subprocess.STDOUT,
                           timeout=timeout, text=True, errors='replace')
    except subprocess.TimeoutExpired:
        shutil.rmtree(metadir, ignore_errors=True)
        raise MachineryError('TLC timed out after %ss: %s %s' % (timeout, module, cfg))
    shutil.rmtree(metadir, ignore_errors=True)
    r = TlcResult(p.stdout, p.returncode, time.time() - t0)
    if check and (r.error or not r.completed):
        raise MachineryError('TLC failed on %s/%s:\n%s' % (module, cfg, (r.error or r.out[-3000:])))
    return r


def judge(module, cfg, records, work, shard=4000, env=None, timeout=900, heap='3g'):
    """
    Code -> spec.  Hand `records` (JSON-able dicts) to the trace module `module`, which evaluates
    its Judge operator on every record.  Returns (verdicts, stats): verdicts[i] is "ok" or the name
    of the failing clause; stats sums TLC's own counts.  Shards run as parallel single-worker TLC
    processes so that printed lines cannot interleave.
    """
    n = len(records)
    if n == 0:
        return [], dict(generated=0, distinct=0, wall=0.0, runs=0)
    shards = [(i, min(n, i + shard)) for i in range(0, n, shard)]
    files = []
    for k, (a, b) in enumerate(shards):
        path = work.fresh('trace') + '.ndjson'
        with open(path, 'w') as f:
            for r in records[a:b]:
                f.write(json.dumps(r, ensure_ascii=True, separators=(',', ':')))
                f.write('\n')
        files.append(path)

    def run(k):
        e = {'TRACE_FILE': files[k]}
        if env:
            e.update(env)
        return tlc(module, cfg, workers=1, env=e, timeout=timeout, heap=heap)

    with ThreadPoolExecutor(max_workers=NCPU) as ex:
        results = list(ex.map(run, range(len(shards))))
    verdicts = ['ok'] * n
    gen = dist = 0
    wall = 0.0
    for k, r in enumerate(results):
        a, b = shards[k]
        if r.distinct != b - a:
            raise MachineryError('trace shard %d: %d records but %d states judged\n%s'
                                 % (k, b - a, r.distinct, r.out[-2000:]))
        for rec in r.printed_json():
            verdicts[a + rec['tid'] - 1] = rec['verdict']
        gen += r.generated
        dist += r.distinct
        wall += r.wall
        os.unlink(files[k])
    return verdicts, dict(generated=gen, distinct=dist, wall=wall, runs=len(shards))


# --------------------------------------------------------------------------------------
# known findings

_kf = None


def known_findings(prop):
    global _kf
    if _kf is None:
        path = os.path.join(VERIF, 'known_findings.json')
        _kf = json.load(open(path)) if os.path.exists(path) else {'findings': []}
    return [f for f in _kf['findings'] if f['property'] == prop and not str(f.get('status', '')).startswith('fixed')]


# --------------------------------------------------------------------------------------
# a check run

class Check:
    """
    Book-keeping for one check run: evidence, violations, known findings, exit code.
    """

    def __init__(self, prop, level, rule):
        self.prop = prop
        self.level = level
        self.rule = rule
        self.tier = tier()
        self.seed = seed()
        self.t0 = time.time()
        self.work = Work(prop)
        self.rng = random.Random(self.seed * 1000003 + int(prop[1:]))
        self.evaluations = 0
        self.nontrivial = set()
        self.samples = []
        self.states = 0
        self.transitions = 0
        self.traces = 0
        self.violations = []
        self.known_hits = {}
        self.extra = {}
        self.assumptions = []
        self.exhaustive = None
        self.kf = known_findings(prop)
        self.replay_dir = os.path.join(VERIF, 'replays', prop)

    # -- counting
    def count(self, key=None, n=1):
        self.evaluations += n
        if key is not None:
            self.nontrivial.add(key if isinstance(key, (str, int, tuple)) else repr(key))

    def sample(self, s, limit=6):
        if len(self.samples) < limit:
            self.samples.append(s)

    def add_tlc(self, r):
        """Account TLC's own numbers (TlcResult or judge() stats)."""
        if isinstance(r, dict):
            self.states += r['distinct']
            self.transitions += r['generated']
        else:
            self.states += r.distinct
            self.transitions += r.generated

    # -- verdicts
    def violation(self, what, replay):
        """
        Record a violation.  `replay` is a JSON-able dict that reproduces it.  If it matches a
        committed known finding (by that finding's matcher), it is reported as such instead.
        """
        for f in self.kf:
            if _matches(f, replay):
                hit = self.known_hits.setdefault(f['id'], [f, 0, replay])
                hit[1] += 1
                return False
        self.violations.append((what, replay))
        return True

    def finish(self):
        wall = time.time() - self.t0
        os.makedirs(os.path.join(VERIF, 'evidence'), exist_ok=True)
        cov = dict(
            evaluations=int(self.evaluations),
            distinct_nontrivial=len(self.nontrivial),
            rule=self.rule,
            samples=self.samples or ['(none)'],
        )
        if self.level == 'model_checking':
            cov.update(states=int(self.states), transitions=int(self.transitions),
                       traces_validated_against_impl=int(self.traces))
        elif self.states:
            cov.update(states=int(self.states), transitions=int(self.transitions),
                       traces_validated_against_impl=int(self.traces))
        if self.exhaustive is not None:
            cov['exhaustive'] = bool(self.exhaustive)
        cov.update(self.extra)
        lines = []
        for fid, (f, n, rep) in sorted(self.known_hits.items()):
            lines.append('KNOWN-FINDING: property=%s %s [%s; seen %d times in this run]' % (self.prop, f['what'], fid, n))
        cov['known_findings_observed'] = [l for l in lines]
        ev = dict(property_id=self.prop, tier=self.tier, seed=self.seed, level=self.level,
                  coverage=cov, assumptions=self.assumptions, wall_s=round(wall, 2),
                  violations=len(self.violations))
        with open(os.path.join(VERIF, 'evidence', self.prop + '.json'), 'w') as f:
            json.dump(ev, f, indent=1, sort_keys=True, default=str)
            f.write('\n')
        for l in lines:
            print(l)
        rc = 0
        if self.violations:
            os.makedirs(self.replay_dir, exist_ok=True)
            seen = set()
            for what, rep in self.violations[:20]:
                h = hashlib.sha256(json.dumps(rep, sort_keys=True, default=str).encode()).hexdigest()[:12]
                if h in seen:
                    continue
                seen.add(h)
                path = os.path.join(self.replay_dir, '%s.json' % h)
                with open(path, 'w') as f:
                    json.dump(dict(property=self.prop, what=what, replay=rep), f, indent=1, default=str)
                print('VIOLATION property=%s replay=%s' % (self.prop, path))
                print('  ' + what[:600])
            if len(self.violations) > 20:
                print('  ... %d violations in total' % len(self.violations))
            rc = 1
        print('%s %s tier=%s seed=%d evaluations=%d distinct=%d states=%d traces=%d known=%d wall=%.1fs'
              % (self.prop, 'FAIL' if rc else 'ok', self.tier, self.seed, self.evaluations,
                 len(self.nontrivial), self.states, self.traces, len(self.known_hits), wall))
        self.work.cleanup()
        return rc


def _matches(f, replay):
    """
    A finding matches a replay iff every key of f['match'] is matched:
      {"input": "..."}            exact equality with replay['input']
      {"class": "name"}           replay['classes'] (decided by the spec / syntactically on the input) contains name
      {"key": value}              replay[key] == value
      {"key": [v1, v2]}           replay[key] in list
    """
    m = f.get('match', {})
    if not m:
        return False
    for k, v in m.items():
        if k == 'class':
            if v not in (replay.get('classes') or []):
                return False
        elif isinstance(v, list):
            if replay.get(k) not in v:
                return False
        elif replay.get(k) != v:
            return False
    return True


def digest(s):
    return hashlib.sha256(s.encode('utf-8', 'surrogatepass')).hexdigest()[:16]
