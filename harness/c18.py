"""
C18 - HTML-based contrib renderers conservatively extend the HTML renderer.

Code -> spec: for every text meeting the renderer's side condition the outputs of the contrib
renderer and of HtmlRenderer (same options) are recorded and TLC evaluates Laws!ConservativeLaw.
"""
import json

from . import core, inputs, proj


def renderers(m):
    from mistletoe.contrib.toc_renderer import TocRenderer
    from mistletoe.contrib.github_wiki import GithubWikiRenderer
    from mistletoe.contrib.mathjax import MathJaxRenderer
    from mistletoe.contrib.pygments_renderer import PygmentsRenderer
    return [TocRenderer, GithubWikiRenderer, MathJaxRenderer, PygmentsRenderer]


OPTS = [{}, {'html_escape_double_quotes': True}, {'html_escape_single_quotes': True}, {'process_html_tokens': False},
        {'html_escape_double_quotes': True, 'html_escape_single_quotes': True, 'process_html_tokens': False}]


def has_code_block(m, text, opts):
    with m.HtmlRenderer(**opts):
        doc = m.Document(text)
    from mistletoe.utils import traverse   # only used to find code blocks in the HTML renderer's parse
    stack = [doc]
    while stack:
        t = stack.pop()
        if t.__class__.__name__ in ('CodeFence', 'BlockCode'):
            return True
        stack.extend(t.children or [])
    return False


def in_domain(m, R, text, opts):
    n = R.__name__
    if n == 'GithubWikiRenderer':
        return '[[' not in text
    if n == 'MathJaxRenderer':
        return '$' not in text
    if n == 'PygmentsRenderer':
        return not has_code_block(m, text, opts)
    return True


def render(m, R, text, opts):
    with R(**opts) as r:
        return r.render(m.Document(text))


def run():
    ck = core.Check('C18', 'exploration',
                    'corpus, mutated, spliced and random texts x {Toc, GithubWiki, MathJax, Pygments} x 5 option sets passed through, kept when the '
                    'renderer-specific side condition holds (no "[[", no "$", no code block in the HTML renderer\'s parse); distinct = distinct '
                    '(text, renderer, options); non-trivial = HTML output non-empty')
    m = core.impl()
    Rs = renderers(m)
    n = 2500 if ck.tier == 'quick' else 60000
    recs, meta = [], []
    from . import docgen
    for i, t in enumerate(inputs.texts(ck.rng, n) + docgen.texts(ck, 400 if ck.tier == 'quick' else 10000)):
        if len(t) > 1500:
            continue
        for j, R in enumerate(Rs):
            opts = OPTS[(i + j) % len(OPTS)] if (i % 3) else {}
            try:
                if not in_domain(m, R, t, opts):
                    continue
                base = render(m, m.HtmlRenderer, t, opts)
            except Exception:
                continue          # totality is C01's business
            try:
                out = render(m, R, t, opts)
            except Exception as e:
                out = 'EXCEPTION ' + e.__class__.__name__
            recs.append({'law': 'conservative', 'renderer': R.__name__, 'outR': proj.asc(out), 'outHtml': proj.asc(base)})
            meta.append((t, R.__name__, opts))
    verdicts, st = core.judge('LawsTrace', 'Trace.cfg', recs, ck.work, shard=1500)
    ck.add_tlc(st)
    ck.traces = len(recs)
    per = {}
    for (t, rn, opts), r, v in zip(meta, recs, verdicts):
        ck.count((t, rn, json.dumps(opts, sort_keys=True)) if r['outHtml'] else None)
        per[rn] = per.get(rn, 0) + 1
        ck.sample({'text': t, 'renderer': rn, 'options': opts, 'verdict': v})
        if v != 'ok':
            ck.violation('%s: text=%r options=%s' % (v, t, opts), {'text': t, 'renderer': rn, 'options': opts, 'clause': v})
    ck.extra['per_renderer'] = per
    bad = json.loads(json.dumps(recs[:40]))
    for b in bad:
        b['outR'] = b['outR'][:-1] if b['renderer'] != 'MathJaxRenderer' else b['outR'] + 'x'
    bv, _ = core.judge('LawsTrace', 'Trace.cfg', [b for b in bad if b['outHtml']], ck.work)
    if any(v == 'ok' for v in bv):
        raise core.MachineryError('binding self-test: corrupted conservative record accepted')
    ck.extra['binding_selftest'] = '%d corrupted records rejected' % len(bv)
    ck.assumptions = ['"no code block" is decided from the HTML renderer\'s own parse of the unmodified input, as the statement phrases it',
                      'MathJax: the appended remainder must be a single <script ...></script> line']
    return ck.finish()


def replay(path):
    rep = json.load(open(path))['replay']
    m = core.impl()
    R = [r for r in renderers(m) if r.__name__ == rep['renderer']][0]
    a, b = render(m, R, rep['text'], rep['options']), render(m, m.HtmlRenderer, rep['text'], rep['options'])
    print(repr(a)); print(repr(b))
    ok = a == b or (rep['renderer'] == 'MathJaxRenderer' and a.startswith(b) and a[len(b):].startswith('<script '))
    return 0 if ok else 1
