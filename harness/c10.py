"""
C10 - reflowing to a maximum line length preserves meaning and honours the limit.

Spec -> code, two layers:
 (1) every case explored by the filler part of spec/Wrap.tla (all paragraphs of <= 4/5 items, word
     lengths 1-3, hard breaks, budgets) is fed to the real MarkdownRenderer.fragments_to_lines; the
     real layout is judged by TLC against the property-tier clauses (WrapTrace.tla) and compared
     with the model's greedy layout (a difference there is model drift, not a violation).  Skipped
     as unobservable if the helper no longer exists with that signature.
 (2) every document written by the document part of spec/Wrap.tla (and by spec/DocGen.tla when
     available) is reflowed by the real renderer for each L of a list; TLC judges Laws!ReflowLaw:
     whitespace-normalised HTML identical, words kept, idempotent, lines longer than L have no
     breakable space after the container prefix, protected blocks reproduced.
"""
import json
import multiprocessing as mp

from . import core, htmlnorm, proj

LS_QUICK = [1, 2, 3, 4, 5, 6, 7, 8, 9, 10, 11, 12, 16, 24, 40, 80, 120]
LS_ALL = list(range(1, 121))


def md(m, text, L):
    from mistletoe.markdown_renderer import MarkdownRenderer
    with MarkdownRenderer(max_line_length=L) as r:
        return r.render(m.Document(text))


def html(m, text):
    """The meaning of a text: its whitespace-normalised HTML and its table of link reference definitions."""
    with m.HtmlRenderer() as r:
        d = m.Document(text)
        defs = [[' '.join(x.split()) for x in (k, v[0], v[1])] for k, v in sorted(d.footnotes.items())]      # a soft break inside a title is whitespace like any other
        return htmlnorm.ws_normalize(r.render(d)) + ' DEFS ' + json.dumps(defs, sort_keys=True)


PROTECTED = ('CodeFence', 'BlockCode', 'HtmlBlock', 'Table', 'Heading')


def protected_blocks(m, text):
    """The blocks that reflowing must not re-break (code blocks, HTML blocks, tables, ATX headings), each written out by itself
    without a line limit and without its container prefix, in document order."""
    from mistletoe.markdown_renderer import MarkdownRenderer
    out = []
    with MarkdownRenderer() as r:
        doc = m.Document(text)

        def walk(t):
            for c in (t.children or []):
                name = c.__class__.__name__
                if name in PROTECTED:
                    out.append(name + ':' + proj.asc(r.render(c)))
                elif hasattr(c, 'line_number') and name not in ('Paragraph', 'SetextHeading'):
                    walk(c)
        walk(doc)
    return out


def line_facts(lines, words, hard, W):
    """For each output line: its length and the number of breakable spaces after the container prefix."""
    facts, k, ok = [], 0, True
    for ln in lines:
        content = ln[W:] if len(ln) >= W else ''
        n = 0
        rest = content
        while k < len(words):
            w = words[k] + ('\\' if hard[k] == 'yes' and k < len(words) - 1 else '')
            if rest == w:
                k += 1
                n += 1
                rest = ''
                break
            if rest.startswith(w + ' '):
                rest = rest[len(w) + 1:]
                k += 1
                n += 1
                continue
            break
        if rest != '' or n == 0:
            ok = False
            facts.append({'len': len(ln), 'breakable': content.strip().count(' ')})
        else:
            facts.append({'len': len(ln), 'breakable': n - 1})
    if k != len(words):
        ok = False
    return facts, ok


def reflow_record(m, src, words, hard, W, L, protected=None, skip=0):
    y = md(m, src, L)
    z = md(m, y, L)
    lines = y.split('\n')
    if lines and lines[-1] == '':
        lines.pop()
    lines = lines[skip:]          # (two-item documents: the first item is one word on one line; the facts are about the second)
    facts, ok = line_facts(lines, words, hard, W) if W >= 0 else ([], True)
    return {'law': 'reflow', 'L': L, 'y': proj.asc(y), 'z': proj.asc(z), 'htmlX': proj.asc(html(m, src)),
            'htmlY': proj.asc(html(m, y)), 'lines': facts, 'wordsOk': 'yes' if ok else 'no',
            'protectedIn': protected_blocks(m, src), 'protectedOut': protected_blocks(m, y)}


def _doc_worker(args):
    docs, Ls, start = args
    m = core.impl()
    out = []
    for k, d in enumerate(docs):
        for j in range(len(Ls) if len(Ls) <= 6 else 5):
            L = Ls[(start + k + j * 7) % len(Ls)] if len(Ls) > 6 else Ls[j]
            try:
                r = reflow_record(m, d['src'], d['words'], d['hard'], d['W'], L, skip=d.get('skip', 0))
            except Exception as e:
                r = {'law': 'reflow', 'L': L, 'y': 'EXCEPTION ' + e.__class__.__name__, 'z': '', 'htmlX': 'x', 'htmlY': 'y', 'lines': [],
                     'wordsOk': 'no', 'protectedIn': [], 'protectedOut': []}
            out.append((d, L, r))
    return out


def filler_layer(ck, m):
    from mistletoe import markdown_renderer as mr
    import inspect
    fn = getattr(mr.MarkdownRenderer, 'fragments_to_lines', None)
    Frag = getattr(mr, 'Fragment', None)
    res = core.tlc('Wrap', 'WrapFillerQ.cfg' if ck.tier == 'quick' else 'WrapFillerT.cfg', workers=1, timeout=3000, heap='6g')
    ck.add_tlc(res)
    cases = res.printed_json()
    if len(cases) < 5000:
        raise core.MachineryError('Wrap.tla (filler) exported only %d cases' % len(cases))
    ck.extra['filler_cases'] = len(cases)
    try:
        ok_sig = fn is not None and Frag is not None and 'max_line_length' in inspect.signature(fn).parameters
    except (TypeError, ValueError):
        ok_sig = False
    if not ok_sig:
        ck.extra['filler_layer'] = 'unobservable: MarkdownRenderer.fragments_to_lines(fragments, max_line_length) not found'
        return
    letters = 'abcdefgh'
    recs, meta = [], []
    drift = 0
    for c in cases:
        frs = []
        for i, it in enumerate(c['items']):
            if it['hard']:
                frs.append(Frag(letters[i] * (it['len'] - 1), wordwrap=True))
                frs.append(Frag('\\\n', wordwrap=False, hard_line_break=True))
            else:
                frs.append(Frag(letters[i] * it['len'], wordwrap=True))
                if i + 1 < len(c['items']):
                    frs.append(Frag(' ', wordwrap=True))
        try:
            out = list(fn(iter(frs), max_line_length=c['budget']))
            lines = [[letters.index(w.rstrip('\\')[0]) + 1 if w.rstrip('\\') else None for w in ln.split(' ')] for ln in out]
            # a lone backslash word stands for an item of length 1 with a hard break: recover its index by position
            flat_i = 0
            for ln in lines:
                for j in range(len(ln)):
                    flat_i += 1
                    if ln[j] is None:
                        ln[j] = flat_i
        except Exception as e:
            lines = [[]]
        recs.append({'items': c['items'], 'budget': c['budget'], 'lines': lines})
        meta.append(c)
        if lines != c['lines']:
            drift += 1
    verdicts, st = core.judge('WrapTrace', 'Trace.cfg', recs, ck.work, shard=4000)
    ck.add_tlc(st)
    for c, r, v in zip(meta, recs, verdicts):
        ck.count(('filler', json.dumps(c['items']), c['budget']) if len(c['items']) > 1 else None)
        ck.traces += 1
        if v != 'ok':
            ck.violation('%s: items=%s budget=%d real layout=%s' % (v, c['items'], c['budget'], r['lines']),
                         {'kind': 'filler', 'items': c['items'], 'budget': c['budget'], 'lines': r['lines'], 'clause': v})
    ck.sample({'filler_case': cases[len(cases) // 2]})
    ck.extra['filler_layer'] = 'replayed'
    ck.extra.setdefault('impl_model_drift', {})['filler_layout_differs_from_greedy_model'] = drift
    bad = json.loads(json.dumps(recs[-5:]))
    for b in bad:
        b['lines'] = [sum(b['lines'], [])]
        b['budget'] = 1
    bv, _ = core.judge('WrapTrace', 'Trace.cfg', [b for b in bad if len(b['lines'][0]) > 1], ck.work)
    if any(v == 'ok' for v in bv):
        raise core.MachineryError('binding self-test: an over-long filler layout was accepted')


def run():
    ck = core.Check('C10', 'model_checking',
                    'filler: every paragraph of <= 4 (quick) / 5 (thorough) items with word lengths 1-3 and hard breaks x budgets, exhaustive; documents: '
                    'every paragraph of <= 3/4 spelled words (plain, emphasis, code span, link, angle-bracket destination with a space, image, hard breaks) under '
                    'every container path of depth <= 2 (quote, list items of offset 2/3/4), each reflowed for 5 values of L per document drawn from 1..120 '
                    '(thorough: every L in 1..120 for a sample); distinct = distinct (case) / (document, L); non-trivial = more than one word')
    m = core.impl()
    quick = ck.tier == 'quick'
    filler_layer(ck, m)
    res = core.tlc('Wrap', 'WrapDocsQ.cfg' if quick else 'WrapDocsT.cfg', workers=1, timeout=3000, heap='6g')
    ck.add_tlc(res)
    docs = res.printed_json()
    if len(docs) < 5000:
        raise core.MachineryError('Wrap.tla (documents) exported only %d documents' % len(docs))
    res = core.tlc('Wrap', 'WrapDefs.cfg', workers=1, timeout=3000, heap='2g')      # one link reference definition under every container path
    ck.add_tlc(res)
    ddocs = res.printed_json()
    if len(ddocs) < 500:
        raise core.MachineryError('Wrap.tla (definitions) exported only %d documents' % len(ddocs))
    docs += ddocs
    ck.extra['definition_documents'] = len(ddocs)
    res = core.tlc('Wrap', 'WrapItems.cfg', workers=1, timeout=3000, heap='2g')     # two-item lists whose second item has the wider content offset
    ck.add_tlc(res)
    idocs = res.printed_json()
    if len(idocs) < 1000:
        raise core.MachineryError('Wrap.tla (items) exported only %d documents' % len(idocs))
    docs += idocs
    ck.extra['two_item_documents'] = len(idocs)
    try:
        from . import docgen
        docs += docgen.reflow_documents(ck, m)
    except ImportError:
        pass
    Ls = LS_QUICK if quick else LS_ALL
    chunk = 300
    jobs = [(docs[a:a + chunk], Ls, a) for a in range(0, len(docs), chunk)]
    ctx = mp.get_context('fork')
    with ctx.Pool(core.NCPU) as pool:
        results = [x for part in pool.map(_doc_worker, jobs) for x in part]
    recs = [r for _, _, r in results]
    verdicts, st = core.judge('LawsTrace', 'Trace.cfg', recs, ck.work, shard=4000)
    ck.add_tlc(st)
    for (d, L, r), v in zip(results, verdicts):
        ck.count(('doc', d['src'], L) if (len(d['words']) > 1 or d['src'].count('\n') > 1) else None)
        ck.traces += 1
        if len(ck.samples) < 6 and L in (3, 8, 12):
            ck.sample({'source': d['src'], 'L': L, 'reflowed': r['y'], 'verdict': v})
        if v != 'ok':
            classes = []
            ck.violation('%s: L=%d source=%r reflowed=%r' % (v, L, d['src'], r['y']),
                         {'kind': 'doc', 'source': d['src'], 'L': L, 'words': d['words'], 'W': d['W'], 'skip': d.get('skip', 0), 'clause': v, 'classes': classes})
    ck.extra['documents'] = len(docs)
    ck.extra['reflows'] = len(recs)
    bad = json.loads(json.dumps([r for r in recs if len(r['lines']) > 0][:20]))
    for b in bad:
        b['lines'][0]['len'] = b['L'] + 5
        b['lines'][0]['breakable'] = 1
    bv, _ = core.judge('LawsTrace', 'Trace.cfg', bad, ck.work)
    if any(v == 'ok' for v in bv):
        raise core.MachineryError('binding self-test: an over-long breakable line was accepted')
    ck.extra['binding_selftest'] = 'over-long breakable lines rejected at both layers'
    ck.exhaustive = True
    ck.assumptions = ['the greedy line layout itself is not demanded (only reported as drift); the property-tier clauses are',
                      'prose words are letters only, so no reflowed line can start with a block marker (the complementary class is outside the property)']
    return ck.finish()


def replay(path):
    rep = json.load(open(path))['replay']
    m = core.impl()
    if rep.get('kind') == 'doc':
        hard = ['no'] * len(rep['words'])
        r = reflow_record(m, rep['source'], rep['words'], hard, rep['W'], rep['L'], skip=rep.get('skip', 0))
        print(json.dumps(r, indent=1))
        bad = r['htmlX'] != r['htmlY'] or r['y'] != r['z'] or any(l['len'] > rep['L'] and l['breakable'] > 0 for l in r['lines'])
        return 1 if bad else 0
    print(json.dumps(rep))
    return 1
