"""
C02 - all 652 CommonMark 0.30 examples render as specified.

Code -> spec: one record per example rendered by the real HTML renderer; spec/Corpus.tla consumes
the trace against the vendored expectation and keeps the completeness book-keeping.
"""
import json
import os

from . import core, inputs, htmlnorm, proj

EXPECTED = os.path.join(core.VERIF, 'corpus', 'expected-0.30.ndjson')


def render(m, md):
    with m.HtmlRenderer(html_escape_double_quotes=True) as r:
        return r.render(m.Document(md))


def judge(ck, recs):
    path = ck.work.fresh('corpus') + '.ndjson'
    with open(path, 'w') as f:
        for r in recs:
            f.write(json.dumps(r) + '\n')
    res = core.tlc('Corpus', 'Corpus.cfg', workers=1, env={'TRACE_FILE': path, 'EXPECTED_FILE': EXPECTED}, check=False)
    if res.error or not res.completed:
        if res.error and 'Invariant Complete is violated' in res.error:
            return res, None
        raise core.MachineryError('TLC failed on Corpus: %s' % (res.error or res.out[-2000:]))
    return res, res.printed_json()


def run():
    ck = core.Check('C02', 'exploration',
                    'the complete vendored corpus (652 examples), each rendered once; distinct = distinct example numbers; all are non-trivial')
    m = core.impl()
    # the derived expectation must be the one the vendored corpus yields (guards against a stale derived file)
    want = [{'example': e['example'], 'html': proj.asc(htmlnorm.normalize(e['html']))} for e in inputs.corpus()]
    have = [json.loads(l) for l in open(EXPECTED)]
    if want != have:
        raise core.MachineryError('corpus/expected-0.30.ndjson is stale; run tools/derive_corpus.py')
    recs = []
    for e in inputs.corpus():
        try:
            out = proj.asc(htmlnorm.normalize(render(m, e['markdown'])))
        except Exception as ex:
            out = 'EXCEPTION ' + ex.__class__.__name__
        recs.append({'example': e['example'], 'out': out})
    res, printed = judge(ck, recs)
    if printed is None:
        raise core.MachineryError('corpus trace incomplete')
    ck.add_tlc(res)
    ck.traces = len(recs)
    rejected = {p['example'] for p in printed if 'example' in p}
    for e in inputs.corpus():
        ck.count(e['example'])
        if e['example'] in rejected:
            ck.violation('example %d (%s): markdown=%r' % (e['example'], e['section'], e['markdown']),
                         {'example': e['example'], 'input': e['markdown'], 'clause': 'Corpus.example-differs'})
    ck.sample({'example': 1, 'markdown': inputs.corpus()[0]['markdown'], 'out': recs[0]['out']})
    ck.sample({'example': 652, 'markdown': inputs.corpus()[-1]['markdown'], 'out': recs[-1]['out']})
    if res.distinct != len(recs) + 1:
        raise core.MachineryError('Corpus trace: %d records but %d states' % (len(recs), res.distinct))
    ck.exhaustive = True
    # binding self-test: corrupt one output, drop one example
    bad = [dict(r) for r in recs]
    bad[10]['out'] += 'x'
    r2, p2 = judge(ck, bad)
    if p2 is None or {p.get('example') for p in p2} != rejected | {bad[10]['example']}:
        raise core.MachineryError('binding self-test: corrupted corpus record not rejected')
    r3, p3 = judge(ck, recs[:-1])
    if p3 is not None:
        raise core.MachineryError('binding self-test: incomplete corpus trace accepted')
    ck.extra['binding_selftest'] = 'one corrupted output rejected; a trace missing one example violates Complete'
    ck.assumptions = ['HTML comparison after harness/htmlnorm.py (inter-tag whitespace, attribute order), applied to both sides']
    return ck.finish()


def replay(path):
    rep = json.load(open(path))['replay']
    m = core.impl()
    e = inputs.corpus()[rep['example'] - 1]
    out = htmlnorm.normalize(render(m, e['markdown']))
    ok = out == htmlnorm.normalize(e['html'])
    print('replay example', e['example'], 'ok' if ok else 'differs:\n%r\n%r' % (out, htmlnorm.normalize(e['html'])))
    return 0 if ok else 1
