"""
C08 - HTML output is well-formed and document text cannot inject markup.

Code -> spec: a strict lexer turns the real HtmlRenderer output into events; TLC runs the acceptor of
spec/HtmlOut.tla on every event stream.  With raw-HTML processing on, raw regions are located
without trusting the renderer: the contents of HtmlBlock/HtmlSpan tokens are replaced by unique
sentinels, the tree is rendered again by the same renderer, and putting the originals back must
reproduce the first output byte for byte.  The escaping helpers are judged character by character
over every Unicode scalar value, and for character-wise behaviour on random concatenations.
"""
import json
import multiprocessing as mp
import re

from . import core, inputs, proj

TAG = re.compile(r'<(/?)([A-Za-z][A-Za-z0-9]*)((?: [A-Za-z][A-Za-z0-9-]*="[^"]*")*)( /)?>')
ATTR = re.compile(r' ([A-Za-z][A-Za-z0-9-]*)="([^"]*)"')
ESCAPES = ('&amp;', '&lt;', '&gt;', '&quot;', '&#x27;')


def bad_amp(s):
    i = s.find('&')
    while i >= 0:
        if not s.startswith(ESCAPES, i):
            return True
        i = s.find('&', i + 1)
    return False


def value_bad(v):
    if '<' in v:
        return 'lt'
    if '>' in v:
        return 'gt'
    if '"' in v:
        return 'quote'
    if bad_amp(v):
        return 'amp'
    return ''


def lex(s):
    ev, pos, n = [], 0, len(s)
    while pos < n:
        if s[pos] == '<':
            m = TAG.match(s, pos)
            if not m:
                ev.append({'k': 'illegal', 'tag': '', 'attrs': [], 'bad': ''})
                pos += 1
                continue
            closing, tag, attrs, selfc = m.groups()
            al = [{'name': a.group(1), 'bad': value_bad(a.group(2))} for a in ATTR.finditer(attrs)]
            if closing:
                ev.append({'k': 'illegal' if (attrs or selfc) else 'close', 'tag': tag, 'attrs': [], 'bad': ''})
            else:
                ev.append({'k': 'void' if selfc else 'open', 'tag': tag, 'attrs': al, 'bad': ''})
            pos = m.end()
        else:
            j = s.find('<', pos)
            j = n if j < 0 else j
            t = s[pos:j]
            ev.append({'k': 'text', 'tag': '', 'attrs': [], 'bad': 'gt' if '>' in t else ('amp' if bad_amp(t) else '')})
            pos = j
    return ev


PAYLOADS = ['x"onerror="alert(1)', "a'b", '<script>', '&quot;', 'a&b', '"><img src=x>', '\\">', '%22', 'java\tscript:', 'é"ü', "x' onmouseover='y",
            'a b', 'a<b', 'a>b', '&#34;', '&amp;quot;', '"', "'", '`', 'x"y"z', '<>', ']]>', '-->', 'a\\"b', '&lt;', 'javascript:alert("x")', 'a)b', '(x")',
            '\x7f', ' ', '{inner}', '{target}', '{}', '{0}', '{', '}', '{a, b}', '%s', '%(x)s', '{{x}}', '\\1', '\\g<0>', '$1', '{title}', '{tag}']
TEMPLATES = ['[a]({p})', '[a](<{p}>)', '![{p}](x)', '![a]({p})', '![a](x "{p}")', "[a](x '{p}')", '[a](x ({p}))', '```{p}\ncode\n```', '~~~ {p}\n{p}\n~~~',
             '<http://x/{p}>', '<{p}@example.com>', '[a]: {p} "{p}"\n\n[a]', '[{p}]: /u "t"\n\n[{p}]', '`{p}`', '    {p}', '# {p}', '> {p}', '- {p}', '**{p}**',
             '| {p} |\n|---|\n| {p} |', '[{p}](u)', '![a](<{p}> "{p}")', '{p}', 'a *{p}* ~~{p}~~', '[a][{p}]\n\n[{p}]: <{p}> ({p})', '1. {p}\n2. `{p}`',
             # rich content in one slot, the payload in another
             '[*c* "q" <b>](/u \'{p}\')', '![*c* "q"](/i "{p}")', '[**s** \'q\'][r]\n\n[r]: /u "{p}"', '[`co` & "q"]({p} "t")', '![a "b"]({p})',
             # an EMPTY slot next to the payload (a renderer may fill the gap from the other slot)
             '[]({p})', '![]({p})', '[][r]\n\n[r]: <{p}>', '[](u "{p}")', '![](i \'{p}\')', '<xy:a@b{p}>', '<irc://n@h/{p}>',
             # the same text first as ordinary text, then inside an attribute (a caption repeated as alt text or title): what one
             # context has computed must not be reused in the other
             '{p}\n\n![{p}](x)', '{p} ![{p}](x) {p}', '*{p}*\n\n![a](x "{p}")', '{p}\n\n[{p}](u \'{p}\')', '`{p}` ![{p}](x)', '# {p}\n\n![{p}](x "{p}")']

OPTS = [dict(process_html_tokens=p, html_escape_double_quotes=d, html_escape_single_quotes=s) for p in (False, True) for d in (False, True) for s in (False, True)]


def set_aside(out1, out2, subs):
    """
    out2 is out1 rendered with sentinels in place of raw HTML contents.  Walk both: where the original content stands
    verbatim in out1 the region is set aside (the sentinel stays); where the renderer wrote it in another form (alt text
    of an image: escaped) that text stays in the stream and is lexed like any other output.
    """
    parts = re.split(r'((?:RAWx\d+x)+)', out2)          # runs of adjacent sentinels are one region
    pos, res = 0, []
    for i, part in enumerate(parts):
        if i % 2 == 0:
            if not out1.startswith(part, pos):
                return out1, 'no'
            pos += len(part)
            res.append(part)
        else:
            keys = re.findall(r'RAWx\d+x', part)
            if any(k not in subs for k in keys):
                return out1, 'no'
            raw = ''.join(subs[k] for k in keys)
            nxt = parts[i + 1] if i + 1 < len(parts) else ''
            if out1.startswith(raw, pos) and out1.startswith(nxt, pos + len(raw)):
                pos += len(raw)
                res.append(part)
            else:
                j = out1.find(nxt, pos) if nxt else len(out1)
                if j < 0:
                    return out1, 'no'
                res.append(out1[pos:j])
                pos = j
    return (''.join(res), 'yes') if pos == len(out1) else (out1, 'no')


def render_record(m, text, opts):
    from mistletoe import block_token, span_token
    with m.HtmlRenderer(**opts) as r:
        doc = m.Document(text)
        out1 = r.render(doc)
        raw_ok = 'yes'
        out = out1
        if opts.get('process_html_tokens', True):
            subs = {}
            stack = [doc]
            k = 0
            while stack:
                t = stack.pop()
                name = t.__class__.__name__
                if name == 'HtmlBlock':
                    k += 1
                    key = 'RAWx%dx' % k
                    subs[key] = t.children[0].content
                    t.children[0].content = key
                elif name == 'HtmlSpan':
                    k += 1
                    key = 'RAWx%dx' % k
                    subs[key] = t.content
                    t.content = key
                else:
                    stack.extend(t.children or [])
                    hdr = vars(t).get('header')
                    if hdr is not None:
                        stack.append(hdr)
            if subs and 'RAWx' not in text:
                out2 = r.render(doc)
                out, raw_ok = set_aside(out1, out2, subs)
    return {'law': 'output', 'rawOk': raw_ok, 'events': lex(out)}, out1


def _worker(args):
    items = args
    m = core.impl()
    res = []
    for text, oi in items:
        try:
            rec, out = render_record(m, text, OPTS[oi])
        except Exception as e:
            rec, out = None, 'EXCEPTION ' + e.__class__.__name__
        res.append((rec, out))
    return res


def helper_records(m):
    """escape_html_text and escape_url over every Unicode scalar value, grouped by projection."""
    from urllib.parse import quote
    cls_of = {'&': 'amp', '<': 'lt', '>': 'gt', '"': 'dquote', "'": 'squote'}
    groups = {}
    safe_url = set('abcdefghijklmnopqrstuvwxyzABCDEFGHIJKLMNOPQRSTUVWXYZ0123456789_.-~/#:()*?=%@+,;')
    for dq in (False, True):
        for sq in (False, True):
            r = m.HtmlRenderer(html_escape_double_quotes=dq, html_escape_single_quotes=sq)
            for cp in range(0x110000):
                if 0xD800 <= cp <= 0xDFFF:
                    continue
                ch = chr(cp)
                img = r.escape_html_text(ch)
                rec = {'law': 'text-image', 'cls': cls_of.get(ch, 'other'), 'dq': 'yes' if dq else 'no', 'sq': 'yes' if sq else 'no',
                       'image': 'SELF' if img == ch else proj.asc(img)}
                groups.setdefault(json.dumps(rec, sort_keys=True), []).append(cp)
            m.HtmlRenderer.__exit__(r, None, None, None)
    r = m.HtmlRenderer()
    for cp in range(0x110000):
        if 0xD800 <= cp <= 0xDFFF:
            continue
        img = r.escape_url(chr(cp))
        unsafe = ''
        rest = img.replace('&amp;', '')
        for c in rest:
            if c not in safe_url:
                unsafe = 'quote' if c == '"' else 'lt' if c == '<' else 'gt' if c == '>' else 'amp' if c == '&' else 'space-or-control' if ord(c) <= 32 or ord(c) == 127 else 'other-%x' % ord(c)
                break
        rec = {'law': 'url-image', 'unsafe': unsafe}
        groups.setdefault(json.dumps(rec, sort_keys=True), []).append(cp)
    m.HtmlRenderer.__exit__(r, None, None, None)
    return groups


def run():
    ck = core.Check('C08', 'exploration',
                    'outputs of HtmlRenderer for corpus examples, seeded mutations/splices, random strings and payload documents (26 construct templates x 30 '
                    'quote/bracket/ampersand-rich payloads in destinations, titles, alt texts, info strings, labels) x the 8 combinations of process_html_tokens, '
                    'html_escape_double_quotes, html_escape_single_quotes; the escaping helpers over every Unicode scalar value (exhaustive) and random '
                    'concatenations; distinct = distinct (input, options); non-trivial = output contains at least one tag')
    m = core.impl()
    quick = ck.tier == 'quick'
    texts = [t.replace('{p}', p) for t in TEMPLATES for p in PAYLOADS]
    texts += inputs.texts(ck.rng, 3000 if quick else 80000)
    from . import docgen
    texts += docgen.texts(ck, 600 if quick else 20000)
    for i in range(600 if quick else 20000):
        a, b = ck.rng.choice(TEMPLATES), ck.rng.choice(TEMPLATES)
        texts.append(a.replace('{p}', ck.rng.choice(PAYLOADS)) + '\n\n' + b.replace('{p}', inputs.mutate(ck.rng, ck.rng.choice(PAYLOADS))))
    items = []
    for i, t in enumerate(texts):
        if len(t) > 2000:
            continue
        k = 8 if i < len(TEMPLATES) * len(PAYLOADS) else 2
        for j in range(k):
            items.append((t, (i + j * 3) % 8 if k < 8 else j))
    chunk = 500
    jobs = [items[a:a + chunk] for a in range(0, len(items), chunk)]
    ctx = mp.get_context('fork')
    with ctx.Pool(core.NCPU) as pool:
        results = [x for part in pool.map(_worker, jobs) for x in part]
    recs, meta = [], []
    for (t, oi), (rec, out) in zip(items, results):
        if rec is None:
            continue          # totality is C01's business
        recs.append(rec)
        meta.append((t, oi, out))
    verdicts, st = core.judge('HtmlOut', 'Trace.cfg', recs, ck.work, shard=2500)
    ck.add_tlc(st)
    ck.traces = len(recs)
    for (t, oi, out), r, v in zip(meta, recs, verdicts):
        ck.count((t, oi) if any(e['k'] != 'text' for e in r['events']) else None)
        if len(ck.samples) < 5 and oi == 0 and '"' in t:
            ck.sample({'input': t, 'options': OPTS[oi], 'output': out, 'verdict': v})
        if v != 'ok':
            ck.violation('%s: input=%r options=%s output=%r' % (v, t, OPTS[oi], out[:400]),
                         {'input': t, 'options': OPTS[oi], 'output': out, 'clause': v})
    # helpers
    groups = helper_records(m)
    keys = sorted(groups)
    hrecs = [json.loads(k) for k in keys]
    # character-wise behaviour on random concatenations
    pool_chars = ['&', '<', '>', '"', "'", 'a', ' ', 'é', ' ', '%', '#', '/', '\\', '\x00', '中']
    hmeta = [None] * len(hrecs)
    r_ = m.HtmlRenderer(html_escape_double_quotes=True)
    for i in range(300 if quick else 20000):
        s = ''.join(ck.rng.choice(pool_chars) for _ in range(ck.rng.randint(2, 12)))
        for fn in (r_.escape_html_text, r_.escape_url):
            hrecs.append({'law': 'homomorphic', 'whole': proj.asc(fn(s)), 'parts': proj.asc(''.join(fn(c) for c in s))})
            hmeta.append((fn.__name__, s))
    m.HtmlRenderer.__exit__(r_, None, None, None)
    hv, st2 = core.judge('HtmlOut', 'Trace.cfg', hrecs, ck.work)
    ck.add_tlc(st2)
    for i, (r, v) in enumerate(zip(hrecs, hv)):
        if i < len(keys):
            cps = groups[keys[i]]
            ck.count(('helper', keys[i]), n=len(cps))
            ck.traces += len(cps)
            if v != 'ok':
                ck.violation('%s: code points %s... (%d)' % (v, [hex(c) for c in cps[:5]], len(cps)), {'helper': r, 'code_points': cps[:50], 'clause': v})
        else:
            ck.count(('homomorphic', hmeta[i]))
            ck.traces += 1
            if v != 'ok':
                ck.violation('%s: %s(%r)' % (v, hmeta[i][0], hmeta[i][1]), {'helper': hmeta[i][0], 'input': hmeta[i][1], 'clause': v})
    ck.extra['helper_projections_judged'] = len(keys)
    ck.extra['code_points_per_helper'] = 0x110000 - 2048
    # binding self-test
    bad = [{'law': 'output', 'rawOk': 'yes', 'events': lex('<p><img src="x"onerror="alert(1)" alt="a" /></p>')},
           {'law': 'output', 'rawOk': 'yes', 'events': lex('<p><em>a</p></em>')},
           {'law': 'output', 'rawOk': 'yes', 'events': lex('<p>a & b</p>')},
           {'law': 'output', 'rawOk': 'yes', 'events': lex('<a href="x>y">t</a>')},
           {'law': 'output', 'rawOk': 'no', 'events': lex('<p>a</p>')},
           {'law': 'output', 'rawOk': 'yes', 'events': lex('<script>x</script>')}]
    bv, _ = core.judge('HtmlOut', 'Trace.cfg', bad, ck.work)
    if any(v == 'ok' for v in bv):
        raise core.MachineryError('binding self-test: a malformed output was accepted: %s' % bv)
    ck.extra['binding_selftest'] = 'malformed outputs rejected: ' + ', '.join(bv)
    ck.exhaustive = False
    ck.assumptions = ['"no quote" in attribute values is read as "not the delimiting double quote" (a single quote inside a double-quoted value is not flagged)',
                      'text may contain "&" only as one of the escapes the renderer itself produces (&amp; &lt; &gt; &quot; &#x27;)',
                      'raw HTML regions are set aside by the sentinel substitution described in the module docstring']
    return ck.finish()


def replay(path):
    rep = json.load(open(path))['replay']
    m = core.impl()
    if 'input' in rep and 'options' in rep:
        rec, out = render_record(m, rep['input'], rep['options'])
        print(repr(out))
        print([e for e in rec['events'] if e['k'] == 'illegal' or e['bad'] or any(a['bad'] for a in e['attrs'])])
    return 1
