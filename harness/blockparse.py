"""
Driver for spec/BlockParse.tla (the line-by-line reader of CommonMark block structure): runs TLC over every line sequence up to
a length bound over several line alphabets (one configuration per alphabet, sharded by the first line over parallel
single-worker processes) and returns the exported documents in the format of harness/docgen.py: {src, html, lines, defs, tags, nblocks}.
TLC also checks, on every document, the reader's own invariants and the laws of C04 / C05 stated on the model (QuoteLaw, ConcatLaw).
"""
import re
from concurrent.futures import ThreadPoolExecutor

from . import core

ALPHABETS = ['A1', 'A2', 'A3', 'A4', 'A5', 'A6', 'A7', 'A8', 'A9']

# classes of input on which the implementation is recorded to deviate (known_findings.json); decided by the specification (tags)
FINDING_TAGS = {'lazy-after-nonpara', 'lazy-after-indented-quote-content', 'lazy-line-looks-like-setext-underline', 'setext-in-quote',
                'blank-line-in-open-fence-in-item'}


def alphabet_size(cfg):
    text = open('%s/%s' % (core.SPEC, cfg)).read()
    body = re.search(r'Alphabet = \{(.*)\}', text).group(1)
    return len(re.findall(r'"(?:[^"\\]|\\.)*"', body))


def documents(ck, depth):
    """All documents of <= depth lines over every alphabet."""
    jobs = []
    for a in ALPHABETS:
        cfg = 'BlockParse%s_%d.cfg' % (a, depth)
        for k in range(1, alphabet_size(cfg) + 1):
            jobs.append((cfg, str(k)))

    def one(job):
        cfg, shard = job
        return core.tlc('BlockParse', cfg, workers=1, env={'SHARD': shard}, timeout=3000, heap='2g')
    with ThreadPoolExecutor(max_workers=core.NCPU) as ex:
        results = list(ex.map(one, jobs))
    docs, seen = [], set()
    for r in results:
        ck.add_tlc(r)
        for d in r.printed_json():
            if d['src'] in seen:
                continue
            seen.add(d['src'])
            docs.append(d)
    if len(docs) < 5000:
        raise core.MachineryError('BlockParse.tla exported only %d documents' % len(docs))
    ck.extra['blockparse_documents'] = len(docs)
    ck.extra['blockparse_alphabets'] = len(ALPHABETS)
    return docs
