"""
Driver for spec/BlockParse.tla (the line-by-line reader of CommonMark block structure): runs TLC over every line sequence up to
a length bound over several line alphabets (one configuration per alphabet, sharded by the first line over parallel
single-worker processes) and returns the exported documents in the format of harness/docgen.py: {src, html, lines, defs, tags, nblocks}.
TLC also checks, on every document, the reader's own invariants and the laws of C04 / C05 stated on the model (QuoteLaw, ConcatLaw).
"""
import re
from concurrent.futures import ThreadPoolExecutor

from . import core

ALPHABETS = ['A1', 'A2', 'A3', 'A4', 'A5', 'A6', 'A7', 'A8', 'A9', 'B1', 'B2', 'B3', 'B4', 'H1', 'H2', 'H3', 'R1', 'R2', 'R3', 'R5', 'W1']
DEEP = ['S1']           # a small alphabet of containers, laziness and indentation read two lines deeper (5 / 6 lines)
DEEP_MORE = ['S2', 'S3', 'S4', 'S5', 'S6', 'S7']    # the same for fences, setext underlines, nested lists, HTML blocks, ordered lists and ATX headings in containers (C03 and C13 only)
SMALL = ['R4']          # small alphabets read one line deeper (a multi-line title needs four lines to swallow a block)

# classes of input on which the implementation is recorded to deviate (known_findings.json); decided by the specification (tags)
FINDING_TAGS = {'lazy-after-nonpara', 'lazy-after-indented-quote-content', 'lazy-line-looks-like-setext-underline', 'setext-in-quote',
                'blank-line-in-open-fence-in-item', 'lazy-indented-line-looks-like-block-start'}


# classes the specification text does not settle (both readings admitted, DESIGN.md 1.4.1): such documents are not judged
UNSETTLED_TAGS = {'unsettled-lazy-or-list', 'unsettled-definition-in-list-item', 'unsettled-block-start-after-definition'}


DEEP_THOROUGH = ['S8', 'S9']       # definitions and HTML blocks in containers, read at six lines in the thorough tier only


def settled(docs):
    return [d for d in docs if not (set(d['tags']) & UNSETTLED_TAGS)]


def alphabet_size(cfg):
    text = open('%s/%s' % (core.SPEC, cfg)).read()
    m = re.search(r'Alphabet <- (\w+)', text)
    if m:          # the alphabet is defined in the module (a configuration file cannot spell a backslash)
        spec = open('%s/BlockParse.tla' % core.SPEC).read()
        body = re.search(r'^%s == \{(.*)\}' % m.group(1), spec, re.M).group(1)
        return len(re.findall(r'"(?:[^"\\]|\\.)*"', body))
    body = re.search(r'Alphabet = \{(.*)\}', text).group(1)
    return len(re.findall(r'"(?:[^"\\]|\\.)*"', body))


def document_parts(ck, depth, laws=True, only=None, deep_more=False):
    """All documents of <= depth lines over every alphabet, in parts (one part per round of parallel TLC processes, then the simulated
    ones): the thorough tiers judge part by part so that two million documents are never held at once."""
    jobs = []
    for a in (only or ALPHABETS):
        cfg = 'BlockParse%s_%d.cfg' % (a, depth)
        if depth <= 3:
            jobs.append((cfg, '-'))           # small enough for one TLC process per alphabet
        else:
            for k in range(1, alphabet_size(cfg) + 1):
                jobs.append((cfg, str(k)))

    for a in SMALL:
        jobs.append(('BlockParse%s_%d.cfg' % (a, depth + 1), '-'))
    if only is None:
        for a in DEEP + (DEEP_MORE if deep_more else []) + (DEEP_THOROUGH if deep_more and depth >= 4 else []):             # two lines deeper, one TLC process per first line
            cfg = 'BlockParse%s_%d.cfg' % (a, depth + 2)
            for k in range(1, alphabet_size(cfg) + 1):
                jobs.append((cfg, str(k)))

    def one(job):
        cfg, shard = job
        return core.tlc('BlockParse', cfg, workers=1, env={'SHARD': shard, 'LAWS': 'on' if laws else 'off'}, timeout=3000, heap='2g')
    seen = set()
    n_docs = n_unsettled = 0
    rounds = [jobs] if depth <= 3 else [jobs[a:a + core.NCPU] for a in range(0, len(jobs), core.NCPU)]
    for batch in rounds:
        with ThreadPoolExecutor(max_workers=core.NCPU) as ex:
            results = list(ex.map(one, batch))
        docs = []
        for r in results:
            ck.add_tlc(r)
            for d in r.printed_json():
                if d['src'] in seen:
                    continue
                seen.add(d['src'])
                docs.append(d)
        del results
        n_docs += len(docs)
        n_unsettled += len(docs) - len(settled(docs))
        yield settled(docs)
    if n_docs < (5000 if only is None else 500 * len(only)):
        raise core.MachineryError('BlockParse.tla exported only %d documents' % n_docs)
    ck.extra['blockparse_documents'] = n_docs
    ck.extra['blockparse_alphabets'] = len(only or ALPHABETS)
    if only is None:
        docs = [d for d in simulate(ck, 600 if depth <= 3 else 20000, laws=laws) if d['src'] not in seen]
        n_unsettled += len(docs) - len(settled(docs))
        yield settled(docs)
    ck.extra['blockparse_unsettled_documents_not_judged'] = n_unsettled


def documents(ck, depth, laws=True, only=None, deep_more=False):
    """All documents of <= depth lines over every alphabet."""
    return [d for part in document_parts(ck, depth, laws=laws, only=only, deep_more=deep_more) for d in part]


def simulate(ck, num, depth=9, laws=True):
    """Random documents of up to `depth` lines over the union of the alphabets (every prefix of a behaviour is a document)."""
    procs = min(core.NCPU, max(1, num // 100))
    per = max(1, num // procs)

    def one(i):
        return core.tlc('BlockParse', 'BlockParseSim.cfg', workers=1, env={'SHARD': '-', 'LAWS': 'on' if laws else 'off'}, timeout=3000, heap='2g',
                        extra=['-simulate', 'num=%d' % per, '-depth', str(depth), '-seed', str(ck.seed * 1000 + i + 1)])
    with ThreadPoolExecutor(max_workers=core.NCPU) as ex:
        results = list(ex.map(one, range(procs)))
    docs, seen = [], set()
    for r in results:
        ck.add_tlc(r)
        for d in r.printed_json():
            if d['src'] not in seen:
                seen.add(d['src'])
                docs.append(d)
    ck.extra['blockparse_simulated_documents'] = len(docs)
    return docs


def texts(ck, n):
    """Source texts of documents read by spec/BlockParse.tla on which model and implementation are known to agree (no finding class,
    nothing unsettled): a systematic family of short documents rich in containers, laziness and look-alikes, for the checks that
    judge laws on arbitrary inputs (C04, C05)."""
    docs = documents(ck, 3, laws=False)
    out = [d['src'] for d in docs if not (set(d['tags']) & FINDING_TAGS)]
    ck.rng.shuffle(out)
    return out[:n]
